package main

import (
	"fmt"
	"go/ast"
	"go/token"
	"go/types"
	"os"
	"sort"
	"strings"

	"golang.org/x/tools/go/packages"
	"golang.org/x/tools/go/ssa"
	"golang.org/x/tools/go/ssa/ssautil"
)

const repoMod = "github.com/openziti/storage"

type Engine struct {
	repo      string
	fset      *token.FileSet
	prog      *ssa.Program
	pkgs      []*packages.Package
	spkgs     map[string]*ssa.Package
	tpkgs     map[string]*types.Package
	cs        *ContractSet
	contracts map[string]*Contract // funcKey -> contract
	ghosts    map[string]*GhostDecl
	specs     map[string]*SpecDecl
	tt        *TypeTable
	heapSort  map[string]string
	fieldTags map[string]int
	allNamed  []*types.Named // named types of the repo packages (closed world)
	errors    []string       // contract resolution errors (contract-orphan)
	purePkgs  map[string]bool
	funcsByKey map[string]*ssa.Function
	implCache map[string][]int
	axiomUsed map[string]bool
	escaping  map[string][]escField // typeKey of field type -> fields whose address escapes
}

type escField struct {
	owner types.Type
	idx   int
	tag   int
}

func loadEngine(repo, trustedDir string) (*Engine, error) {
	cfg := &packages.Config{Mode: packages.LoadAllSyntax, Dir: repo, BuildFlags: []string{"-tags=verif"}, Env: append(os.Environ(), "GOFLAGS=-mod=mod", "GOPROXY=off", "GOSUMDB=off", "GOTOOLCHAIN=local")}
	pkgs, err := packages.Load(cfg, "./ast", "./boltz", "./objectz", "./zitiql")
	if err != nil {
		return nil, err
	}
	nerr := 0
	packages.Visit(pkgs, nil, func(p *packages.Package) {
		for _, e := range p.Errors {
			if strings.HasPrefix(p.PkgPath, repoMod) {
				fmt.Fprintf(os.Stderr, "load error: %v\n", e)
				nerr++
			}
		}
	})
	if nerr > 0 {
		return nil, fmt.Errorf("%d load errors in repository packages", nerr)
	}
	prog, _ := ssautil.AllPackages(pkgs, ssa.GlobalDebug)
	prog.Build()
	e := &Engine{repo: repo, prog: prog, pkgs: pkgs, spkgs: map[string]*ssa.Package{}, tpkgs: map[string]*types.Package{},
		contracts: map[string]*Contract{}, ghosts: map[string]*GhostDecl{}, specs: map[string]*SpecDecl{},
		tt: &TypeTable{ids: map[string]int{}}, heapSort: map[string]string{}, fieldTags: map[string]int{},
		funcsByKey: map[string]*ssa.Function{}, implCache: map[string][]int{}, axiomUsed: map[string]bool{}}
	e.fset = prog.Fset
	pkgFiles := map[string][]*ast.File{}
	packages.Visit(pkgs, nil, func(p *packages.Package) {
		e.tpkgs[p.PkgPath] = p.Types
		if sp := prog.Package(p.Types); sp != nil {
			e.spkgs[p.PkgPath] = sp
		}
	})
	for _, p := range pkgs {
		pkgFiles[p.PkgPath] = p.Syntax
	}
	// closed world of named types, deterministic order
	var paths []string
	for _, p := range pkgs {
		paths = append(paths, p.PkgPath)
	}
	sort.Strings(paths)
	for _, pp := range paths {
		sc := e.tpkgs[pp].Scope()
		for _, n := range sc.Names() {
			if tn, ok := sc.Lookup(n).(*types.TypeName); ok && !tn.IsAlias() {
				if nt, ok := tn.Type().(*types.Named); ok {
					e.allNamed = append(e.allNamed, nt)
					if _, isI := nt.Underlying().(*types.Interface); !isI {
						e.tt.id(nt)
						e.tt.id(types.NewPointer(nt))
					}
				}
			}
		}
	}
	cs, err := loadContracts(pkgFiles, e.fset, trustedDir)
	if err != nil {
		return nil, err
	}
	e.cs = cs
	for _, g := range cs.Ghosts {
		e.ghosts[g.Name] = g
		e.heapSort["ghost."+g.Name] = g.Sort
	}
	for _, s := range cs.Specs {
		e.specs[s.Name] = s
	}
	for _, sd := range cs.Specs {
		dfx := &FnExec{e: e, c: newCtx()}
		env := &Env{fx: dfx, pkg: e.tpkgs[sd.PkgPath]}
		if err := dfx.resolveSpecRet(env, sd); err != nil {
			e.errors = append(e.errors, err.Error())
		}
	}
	for _, c := range cs.Funcs {
		key, isIface, err := e.resolveContract(c)
		if err != nil {
			e.errors = append(e.errors, fmt.Sprintf("%s:%d: contract-orphan: %v", c.File, c.Line, err))
			continue
		}
		c.Key = key
		c.IsIface = isIface
		if old, dup := e.contracts[key]; dup {
			e.errors = append(e.errors, fmt.Sprintf("%s:%d: duplicate contract for %s (first at %s:%d)", c.File, c.Line, key, old.File, old.Line))
			continue
		}
		e.contracts[key] = c
	}
	e.findEscaping()
	e.checkImmutableWriters()
	e.purePkgs = map[string]bool{}
	for _, p := range []string{"fmt", "strings", "strconv", "bytes", "errors", "math", "unicode", "unicode/utf8", "time",
		"github.com/pkg/errors", "github.com/michaelquigley/pfxlog", "github.com/sirupsen/logrus", "github.com/google/uuid",
		"math/bits", "encoding/binary", "reflect", "github.com/openziti/foundation/v2/errorz", "github.com/openziti/foundation/v2/stringz"} {
		e.purePkgs[p] = true
	}
	return e, nil
}

func shortPkg(path string) string {
	if i := strings.LastIndex(path, "/"); i >= 0 {
		return path[i+1:]
	}
	return path
}

// funcKey: "<pkgpath>.(<recv>).<name>" with generic type arguments dropped
func funcKeyOf(f *types.Func) string {
	f = f.Origin()
	sig := f.Type().(*types.Signature)
	pkg := ""
	if f.Pkg() != nil {
		pkg = f.Pkg().Path()
	}
	if r := sig.Recv(); r != nil {
		t := unalias(r.Type())
		star := ""
		if p, ok := t.(*types.Pointer); ok {
			star = "*"
			t = unalias(p.Elem())
		}
		if n, ok := t.(*types.Named); ok {
			if n.Obj().Pkg() != nil {
				pkg = n.Obj().Pkg().Path()
			}
			return fmt.Sprintf("%s.(%s%s).%s", pkg, star, n.Origin().Obj().Name(), f.Name())
		}
		return fmt.Sprintf("%s.(%s?).%s", pkg, star, f.Name())
	}
	return pkg + "." + f.Name()
}

func displayKey(key string) string {
	return strings.Replace(key, repoMod+"/", "", 1)
}

func (e *Engine) resolveContract(c *Contract) (string, bool, error) {
	tp := e.tpkgs[c.PkgPath]
	if tp == nil {
		return "", false, fmt.Errorf("package %q not loaded", c.PkgPath)
	}
	if i := strings.Index(c.Name, "$"); i >= 0 {
		// anonymous function N of a named function
		parent := *c
		parent.Name = c.Name[:i]
		parent.Flags = map[string]string{}
		pk, _, err := e.resolveContract(&parent)
		if err != nil {
			return "", false, err
		}
		c.ParentKey = pk
		c.ParentRecv = c.Recv
		return pk + c.Name[i:], false, nil
	}
	if c.Flags["ifacedefault"] != "" {
		tn, ok := tp.Scope().Lookup(c.Name).(*types.TypeName)
		if !ok {
			return "", false, fmt.Errorf("no type %s in %s", c.Name, c.PkgPath)
		}
		if _, ok := tn.Type().Underlying().(*types.Interface); !ok {
			return "", false, fmt.Errorf("%s is not an interface", c.Name)
		}
		c.Trusted = true
		c.IsIface = true
		if c.TrustedWhy == "" {
			c.TrustedWhy = "default contract for the methods of a user-implemented interface"
		}
		return "ifacedefault:" + c.PkgPath + "." + c.Name, true, nil
	}
	if c.Flags["funcparam"] != "" {
		// Name = "[(*T).]F.p"
		i := strings.LastIndex(c.Name, ".")
		if i < 0 {
			return "", false, fmt.Errorf("funcparam wants F.p")
		}
		fname, pname := c.Name[:i], c.Name[i+1:]
		m := reFunc.FindStringSubmatch("func " + fname)
		if m == nil {
			return "", false, fmt.Errorf("funcparam: bad function name %q", fname)
		}
		parent := &Contract{PkgPath: c.PkgPath, Recv: strings.TrimSpace(m[1]), Name: m[2], Flags: map[string]string{}}
		pk, _, err := e.resolveContract(parent)
		if err != nil {
			return "", false, err
		}
		sig := parent.Obj.Type().(*types.Signature)
		found := false
		for j := 0; j < sig.Params().Len(); j++ {
			if sig.Params().At(j).Name() == pname {
				if _, ok := sig.Params().At(j).Type().Underlying().(*types.Signature); ok {
					found = true
					c.FuncT = sig.Params().At(j).Type()
				}
			}
		}
		if !found {
			// renamed since the contract was written? (same position in the baselined signature)
			if bs := baseSigFor(pk, parent.Obj); bs != nil {
				for j := 0; j < sig.Params().Len(); j++ {
					if 1+j < len(bs) && bs[1+j] == pname {
						if _, ok := sig.Params().At(j).Type().Underlying().(*types.Signature); ok {
							found = true
							c.FuncT = sig.Params().At(j).Type()
						}
					}
				}
			}
		}
		if !found {
			return "", false, fmt.Errorf("function %s has no function-typed parameter %s", fname, pname)
		}
		c.Trusted = true
		if c.TrustedWhy == "" {
			c.TrustedWhy = "contract on a caller-supplied function parameter"
		}
		return "funcparam:" + pk + "." + pname, false, nil
	}
	if c.Flags["funcfield"] != "" {
		parts := strings.Split(c.Name, ".")
		if len(parts) != 2 {
			return "", false, fmt.Errorf("funcfield wants T.f")
		}
		tn, ok := tp.Scope().Lookup(parts[0]).(*types.TypeName)
		if !ok {
			return "", false, fmt.Errorf("no type %s in %s", parts[0], c.PkgPath)
		}
		st, ok := tn.Type().Underlying().(*types.Struct)
		if !ok {
			return "", false, fmt.Errorf("%s is not a struct", parts[0])
		}
		found := false
		for i := 0; i < st.NumFields(); i++ {
			if st.Field(i).Name() == parts[1] {
				if _, ok := st.Field(i).Type().Underlying().(*types.Signature); ok {
					found = true
					c.FuncT = st.Field(i).Type()
				}
			}
		}
		if !found {
			return "", false, fmt.Errorf("%s has no function field %s", parts[0], parts[1])
		}
		c.Trusted = true
		if c.TrustedWhy == "" {
			c.TrustedWhy = "contract on a user-supplied function stored in a field"
		}
		return "funcfield:" + c.PkgPath + "." + c.Name, false, nil
	}
	if c.Flags["functype"] != "" {
		tn, ok := tp.Scope().Lookup(c.Name).(*types.TypeName)
		if !ok {
			return "", false, fmt.Errorf("no type %s in %s", c.Name, c.PkgPath)
		}
		if _, ok := tn.Type().Underlying().(*types.Signature); !ok {
			return "", false, fmt.Errorf("%s is not a function type", c.Name)
		}
		c.FuncT = tn.Type()
		c.Trusted = true
		if c.TrustedWhy == "" {
			c.TrustedWhy = "contract on a caller-supplied function value"
		}
		return "functype:" + c.PkgPath + "." + c.Name, false, nil
	}
	if c.Recv == "" {
		obj := tp.Scope().Lookup(c.Name)
		f, ok := obj.(*types.Func)
		if !ok {
			return "", false, fmt.Errorf("no function %s in %s", c.Name, c.PkgPath)
		}
		c.Obj = f
		return funcKeyOf(f), false, nil
	}
	rn := strings.TrimPrefix(c.Recv, "*")
	obj := tp.Scope().Lookup(rn)
	tn, ok := obj.(*types.TypeName)
	if !ok {
		return "", false, fmt.Errorf("no type %s in %s", rn, c.PkgPath)
	}
	nt, ok := tn.Type().(*types.Named)
	if !ok {
		return "", false, fmt.Errorf("%s is not a named type", rn)
	}
	if it, ok := nt.Underlying().(*types.Interface); ok {
		for i := 0; i < it.NumMethods(); i++ {
			if it.Method(i).Name() == c.Name {
				c.Obj = it.Method(i)
				c.IfaceT = nt
				return funcKeyOf(it.Method(i)), true, nil
			}
		}
		return "", false, fmt.Errorf("interface %s has no method %s", rn, c.Name)
	}
	var recvT types.Type = nt
	if strings.HasPrefix(c.Recv, "*") {
		recvT = types.NewPointer(nt)
	}
	ms := types.NewMethodSet(recvT)
	for i := 0; i < ms.Len(); i++ {
		m := ms.At(i)
		if m.Obj().Name() == c.Name {
			f := m.Obj().(*types.Func)
			// must be declared on this type (not promoted)
			k := funcKeyOf(f)
			want := fmt.Sprintf("%s.(%s).%s", c.PkgPath, c.Recv, c.Name)
			if k != want {
				return "", false, fmt.Errorf("method %s resolves to %s (promoted or receiver kind mismatch)", want, k)
			}
			c.Obj = f
			return k, false, nil
		}
	}
	return "", false, fmt.Errorf("type %s has no method %s", c.Recv, c.Name)
}

// findFunction returns the SSA function for a (non-interface) contract key
func (e *Engine) findFunction(c *Contract) *ssa.Function {
	if f, ok := e.funcsByKey[c.Key]; ok {
		return f
	}
	if i := strings.Index(c.Name, "$"); i >= 0 {
		parent := *c
		parent.Name = c.Name[:i]
		parent.Key = c.ParentKey
		pf := e.findFunction(&parent)
		var fn *ssa.Function
		if pf != nil {
			cur := pf
			ok := true
			for _, part := range strings.Split(c.Name[i+1:], "$") {
				n := 0
				fmt.Sscanf(part, "%d", &n)
				if n < 1 || n > len(cur.AnonFuncs) {
					ok = false
					break
				}
				cur = cur.AnonFuncs[n-1]
			}
			if ok {
				fn = cur
			}
		}
		e.funcsByKey[c.Key] = fn
		return fn
	}
	tp := e.tpkgs[c.PkgPath]
	sp := e.spkgs[c.PkgPath]
	if tp == nil || sp == nil {
		return nil
	}
	var fn *ssa.Function
	if c.Recv == "" {
		fn = sp.Func(c.Name)
	} else {
		rn := strings.TrimPrefix(c.Recv, "*")
		tn, _ := tp.Scope().Lookup(rn).(*types.TypeName)
		if tn == nil {
			return nil
		}
		var recvT types.Type = tn.Type()
		if strings.HasPrefix(c.Recv, "*") {
			recvT = types.NewPointer(recvT)
		}
		ms := types.NewMethodSet(recvT)
		for i := 0; i < ms.Len(); i++ {
			if ms.At(i).Obj().Name() == c.Name {
				fn = e.prog.FuncValue(ms.At(i).Obj().(*types.Func))
			}
		}
	}
	e.funcsByKey[c.Key] = fn
	return fn
}

// implementors of an interface among the closed world (type ids)
func (e *Engine) implementors(it types.Type) []int {
	k := types.TypeString(it, nil)
	if r, ok := e.implCache[k]; ok {
		return r
	}
	iface, ok := under(it).(*types.Interface)
	if !ok {
		return nil
	}
	var out []int
	genericIface := false
	if n, ok := unalias(it).(*types.Named); ok && n.Origin().TypeParams().Len() > 0 {
		genericIface = true
	}
	byNames := func(t types.Type) bool {
		ms := types.NewMethodSet(t)
		for i := 0; i < iface.NumMethods(); i++ {
			m := iface.Method(i)
			if ms.Lookup(m.Pkg(), m.Name()) == nil {
				return false
			}
		}
		return iface.NumMethods() > 0
	}
	for _, nt := range e.allNamed {
		if _, isI := nt.Underlying().(*types.Interface); isI {
			continue
		}
		if genericIface {
			// instantiation-insensitive approximation: all methods present by name
			if byNames(nt) {
				out = append(out, e.tt.id(nt))
			}
			if byNames(types.NewPointer(nt)) {
				out = append(out, e.tt.id(types.NewPointer(nt)))
			}
			continue
		}
		if nt.TypeParams().Len() > 0 {
			// generic types: approximate through the method set of the generic type itself
			if types.Implements(nt, iface) {
				out = append(out, e.tt.id(nt))
			}
			if types.Implements(types.NewPointer(nt), iface) {
				out = append(out, e.tt.id(types.NewPointer(nt)))
			}
			continue
		}
		if types.Implements(nt, iface) {
			out = append(out, e.tt.id(nt))
		}
		if types.Implements(types.NewPointer(nt), iface) {
			out = append(out, e.tt.id(types.NewPointer(nt)))
		}
	}
	sort.Ints(out)
	e.implCache[k] = out
	return out
}

func (e *Engine) isRepoType(t types.Type) bool {
	if n, ok := unalias(t).(*types.Named); ok {
		return n.Obj().Pkg() != nil && strings.HasPrefix(n.Obj().Pkg().Path(), repoMod)
	}
	return false
}

func (e *Engine) fieldTag(owner string, idx int) int {
	k := fmt.Sprintf("%s#%d", owner, idx)
	if t, ok := e.fieldTags[k]; ok {
		return t
	}
	t := len(e.fieldTags) + 1
	e.fieldTags[k] = t
	return t
}

// findEscaping: fields (of non-struct type) whose address is used other than for a direct load/store
func (e *Engine) findEscaping() {
	e.escaping = map[string][]escField{}
	seen := map[string]bool{}
	var fns []*ssa.Function
	for fn := range ssautil.AllFunctions(e.prog) {
		if fn.Pkg == nil || !strings.HasPrefix(fn.Pkg.Pkg.Path(), repoMod) {
			continue
		}
		fns = append(fns, fn)
	}
	sort.Slice(fns, func(i, j int) bool { return fns[i].String() < fns[j].String() })
	for _, fn := range fns {
		for _, b := range fn.Blocks {
			for _, in := range b.Instrs {
				fa, ok := in.(*ssa.FieldAddr)
				if !ok || fa.Referrers() == nil {
					continue
				}
				owner := elemOf(fa.X.Type())
				if owner == nil || isTypeParam(owner) {
					continue
				}
				st, ok := under(owner).(*types.Struct)
				if !ok {
					continue
				}
				f := st.Field(fa.Field)
				if _, isS := under(f.Type()).(*types.Struct); isS && !isTypeParam(f.Type()) {
					continue
				}
				esc := false
				for _, r := range *fa.Referrers() {
					switch x := r.(type) {
					case *ssa.Store:
						if x.Addr == fa && x.Val != ssa.Value(fa) {
							continue
						}
					case *ssa.UnOp, *ssa.DebugRef:
						continue
					}
					esc = true
				}
				if !esc {
					continue
				}
				k := fmt.Sprintf("%s#%d", ownerKey(owner), fa.Field)
				if seen[k] {
					continue
				}
				seen[k] = true
				tk := typeKey(f.Type())
				e.escaping[tk] = append(e.escaping[tk], escField{owner: owner, idx: fa.Field, tag: e.fieldTag(ownerKey(owner), fa.Field)})
			}
		}
	}
}

// keyOfFunction: contract key of an SSA function, including anonymous functions (parent$N)
func keyOfFunction(fn *ssa.Function) string {
	if fn.Object() != nil {
		return funcKeyOf(fn.Object().(*types.Func))
	}
	if p := fn.Parent(); p != nil {
		for i, a := range p.AnonFuncs {
			if a == fn {
				return fmt.Sprintf("%s$%d", keyOfFunction(p), i+1)
			}
		}
	}
	return fn.String()
}

// closedWorld: interfaces of the filter AST are only implemented inside the repository;
// store-side interfaces (Entity, EntityStrategy, Constraint ...) are meant to be implemented by users.
func (e *Engine) closedWorld(t types.Type) bool {
	n, ok := unalias(t).(*types.Named)
	if !ok || n.Obj().Pkg() == nil {
		return false
	}
	p := n.Obj().Pkg().Path()
	if p != repoMod+"/ast" {
		return false
	}
	switch n.Obj().Name() {
	case "Symbols", "SymbolTypes", "SetCursor", "SeekableSetCursor", "TypeSeekableSetCursor", "Visitor", "SortField":
		return false
	}
	return len(e.implementors(t)) > 0
}

// checkImmutableWriters: an `immutable` declaration is only as good as the list of functions that write the field.
// Functions under contract get an `immutable` obligation per write; a function outside every contract that writes such
// a field on an object it did not allocate itself is an engine error, so the declaration cannot silently go stale.
func (e *Engine) checkImmutableWriters() {
	if len(e.cs.Immutable) == 0 {
		return
	}
	isImm := func(prefix string) bool {
		for _, n := range e.cs.Immutable {
			if n == prefix || strings.HasPrefix(n, prefix+".") {
				return true
			}
		}
		return false
	}
	var structWrites func(t types.Type, out *[]string)
	structWrites = func(t types.Type, out *[]string) {
		st, ok := under(t).(*types.Struct)
		if !ok || isTypeParam(t) {
			return
		}
		for i := 0; i < st.NumFields(); i++ {
			f := st.Field(i)
			if _, isS := under(f.Type()).(*types.Struct); isS && !isTypeParam(f.Type()) {
				structWrites(f.Type(), out)
				continue
			}
			*out = append(*out, "H."+ownerKey(t)+"."+f.Name())
		}
	}
	var ownAlloc func(v ssa.Value) bool
	ownAlloc = func(v ssa.Value) bool {
		switch x := v.(type) {
		case *ssa.Alloc:
			return true
		case *ssa.FieldAddr:
			return ownAlloc(x.X)
		case *ssa.IndexAddr:
			return ownAlloc(x.X)
		}
		return false
	}
	var fns []*ssa.Function
	for fn := range ssautil.AllFunctions(e.prog) {
		if fn.Pkg == nil || !strings.HasPrefix(fn.Pkg.Pkg.Path(), repoMod) || fn.Synthetic != "" {
			continue
		}
		fns = append(fns, fn)
	}
	sort.Slice(fns, func(i, j int) bool { return fns[i].String() < fns[j].String() })
	for _, fn := range fns {
		if e.contracts[keyOfFunction(fn)] != nil {
			continue
		}
		for _, b := range fn.Blocks {
			for _, in := range b.Instrs {
				st, ok := in.(*ssa.Store)
				if !ok || ownAlloc(st.Addr) {
					continue
				}
				var names []string
				if fa, ok := st.Addr.(*ssa.FieldAddr); ok {
					if owner := elemOf(fa.X.Type()); owner != nil && !isTypeParam(owner) {
						if s, ok := under(owner).(*types.Struct); ok {
							f := s.Field(fa.Field)
							if _, isS := under(f.Type()).(*types.Struct); !isS || isTypeParam(f.Type()) {
								names = append(names, "H."+ownerKey(owner)+"."+f.Name())
							}
						}
					}
				}
				structWrites(st.Val.Type(), &names)
				for _, n := range names {
					if isImm(n) {
						e.errors = append(e.errors, fmt.Sprintf("%s: %s writes %s, which is declared immutable, on an object it did not allocate, and is not under contract",
							e.fset.Position(st.Pos()), displayKey(keyOfFunction(fn)), n))
					}
				}
			}
		}
	}
}
