package main

import (
	"fmt"
	"go/ast"
	"go/constant"
	"go/parser"
	"go/token"
	"go/types"
	"strconv"
	"strings"

	"golang.org/x/tools/go/ssa"
)

// ---------------------------------------------------------------------------
// Contract expressions: Go expression syntax extended with old(), result,
// forall/exists, implies (==>), spec functions and ghost arrays.
// ---------------------------------------------------------------------------

type Env struct {
	fx      *FnExec
	names   map[string]Val
	heap    *Heap
	old     *Heap
	results []Val
	pkg     *types.Package
	local   func(string) (Val, bool)
	bound   map[string]Val
	inViewDispatch bool
}

func (env *Env) with(name string, v Val) *Env {
	n := *env
	n.bound = map[string]Val{}
	for k, x := range env.bound {
		n.bound[k] = x
	}
	n.bound[name] = v
	return &n
}

func parseSpecExpr(text string) (ast.Expr, error) {
	return parser.ParseExpr(rewriteImplies(text))
}

func (env *Env) evalBool(text string) (string, error) {
	ex, err := parseSpecExpr(text)
	if err != nil {
		return "", fmt.Errorf("parse %q: %v", text, err)
	}
	v, err := env.eval(ex)
	if err != nil {
		return "", fmt.Errorf("%q: %v", text, err)
	}
	if len(v.L) != 1 {
		return "", fmt.Errorf("%q: not a boolean", text)
	}
	return v.L[0], nil
}

func specVal(term string) Val { return Val{L: []string{term}} }

func (env *Env) eval(x ast.Expr) (Val, error) {
	fx := env.fx
	switch n := x.(type) {
	case *ast.ParenExpr:
		return env.eval(n.X)
	case *ast.BasicLit:
		switch n.Kind {
		case token.INT:
			return Val{T: types.Typ[types.UntypedInt], L: []string{n.Value}}, nil
		case token.FLOAT:
			return Val{T: types.Typ[types.UntypedFloat], L: []string{n.Value}}, nil
		case token.STRING:
			s, err := strconv.Unquote(n.Value)
			if err != nil {
				return Val{}, err
			}
			return Val{T: types.Typ[types.String], L: []string{fx.c.strLit(s)}}, nil
		case token.CHAR:
			s, err := strconv.Unquote(n.Value)
			if err != nil || len(s) == 0 {
				return Val{}, fmt.Errorf("bad char literal")
			}
			return Val{T: types.Typ[types.UntypedInt], L: []string{intLit(int64([]rune(s)[0]))}}, nil
		}
	case *ast.Ident:
		return env.ident(n.Name)
	case *ast.UnaryExpr:
		v, err := env.eval(n.X)
		if err != nil {
			return Val{}, err
		}
		switch n.Op {
		case token.NOT:
			return Val{T: types.Typ[types.Bool], L: []string{sNot(v.one())}}, nil
		case token.SUB:
			return Val{T: v.T, L: []string{app("-", v.one())}}, nil
		}
	case *ast.StarExpr:
		v, err := env.eval(n.X)
		if err != nil {
			return Val{}, err
		}
		if v.T == nil || !isPointer(v.T) && v.Loc == nil {
			return Val{}, fmt.Errorf("deref of non-pointer")
		}
		return fx.load(env.heap, v), nil
	case *ast.BinaryExpr:
		return env.binary(n)
	case *ast.SelectorExpr:
		// package-qualified name?
		if id, ok := n.X.(*ast.Ident); ok {
			if _, isName := env.lookupName(id.Name); !isName {
				if p := fx.e.pkgByName(id.Name); p != nil {
					return env.pkgObject(p, n.Sel.Name)
				}
			}
		}
		v, err := env.eval(n.X)
		if err != nil {
			return Val{}, err
		}
		return env.selectField(v, n.Sel.Name)
	case *ast.IndexExpr:
		a, err := env.eval(n.X)
		if err != nil {
			return Val{}, err
		}
		i, err := env.eval(n.Index)
		if err != nil {
			return Val{}, err
		}
		if a.T != nil && isSlice(a.T) {
			return fx.sliceElem(a, i.one()), nil
		}
		if a.T != nil && isString(a.T) {
			return Val{T: types.Typ[types.Byte], L: []string{app("str_at", a.one(), i.one())}}, nil
		}
		if a.T != nil {
			if m, ok := under(a.T).(*types.Map); ok {
				names := fx.mapHeapNames(a.T)
				k := fx.mapKeyTerm(m.Key(), i)
				out := Val{T: m.Elem()}
				dom := fx.heapVar(env.heap, names[0], "")
				present := sSel(sSel(dom, a.one()), k)
				z := fx.zeroVal(m.Elem())
				for j := range fx.e.leaves(m.Elem()) {
					hv := fx.heapVar(env.heap, names[1+j], "")
					out.L = append(out.L, sIte(present, sSel(sSel(hv, a.one()), k), z.L[j]))
				}
				return out, nil
			}
		}
		// ghost array with a view for the (statically or dynamically known) type of the index object
		if id, ok := n.X.(*ast.Ident); ok {
			if _, isGhost := fx.e.ghosts[id.Name]; isGhost {
				if v, ok, err := env.viewOf(id.Name, i); err != nil {
					return Val{}, err
				} else if ok {
					return v, nil
				}
			}
		}
		// ghost / spec array
		return specVal(sSel(a.one(), env.idxTerm(i))), nil
	case *ast.CallExpr:
		return env.call(n)
	}
	return Val{}, fmt.Errorf("unsupported expression %T", x)
}

// idxTerm converts a value to a single index term
func (env *Env) idxTerm(v Val) string {
	if len(v.L) == 1 {
		return v.L[0]
	}
	if v.T != nil && isInterface(v.T) {
		return v.L[1]
	}
	if v.T != nil && isSlice(v.T) {
		return env.bytesStr(v)
	}
	return v.L[0]
}

func (env *Env) bytesStr(v Val) string {
	if len(v.L) >= 3 {
		return app("bytes_str", v.L[2], v.L[1])
	}
	return v.L[0]
}

func (e *Engine) pkgByName(name string) *types.Package {
	var best *types.Package
	for _, p := range e.tpkgs {
		if p.Name() == name {
			if strings.HasPrefix(p.Path(), repoMod) {
				return p
			}
			if best == nil || len(p.Path()) < len(best.Path()) {
				best = p
			}
		}
	}
	return best
}

func (env *Env) pkgObject(p *types.Package, name string) (Val, error) {
	obj := p.Scope().Lookup(name)
	switch o := obj.(type) {
	case *types.Const:
		return env.constObj(o)
	case *types.Var:
		sp := env.fx.e.prog.Package(p)
		if sp != nil {
			if g, ok := sp.Members[name]; ok {
				if gg, ok := g.(interface{ Type() types.Type }); ok {
					_ = gg
				}
			}
			if g := sp.Var(name); g != nil {
				return env.fx.load(env.heap, env.fx.val(g)), nil
			}
		}
	}
	return Val{}, fmt.Errorf("unknown package member %s.%s", p.Name(), name)
}

func (env *Env) constObj(o *types.Const) (Val, error) {
	v := o.Val()
	switch v.Kind() {
	case constant.Int:
		s := v.ExactString()
		if strings.HasPrefix(s, "-") {
			s = "(- " + s[1:] + ")"
		}
		return Val{T: o.Type(), L: []string{s}}, nil
	case constant.Bool:
		if constant.BoolVal(v) {
			return Val{T: o.Type(), L: []string{tTrue}}, nil
		}
		return Val{T: o.Type(), L: []string{tFalse}}, nil
	case constant.String:
		return Val{T: o.Type(), L: []string{env.fx.c.strLit(constant.StringVal(v))}}, nil
	case constant.Float:
		f, _ := constant.Float64Val(v)
		return Val{T: o.Type(), L: []string{realLit(f)}}, nil
	}
	return Val{}, fmt.Errorf("unsupported constant %s", o.Name())
}

func (env *Env) lookupName(name string) (Val, bool) {
	if v, ok := env.bound[name]; ok {
		return v, true
	}
	if v, ok := env.names[name]; ok {
		return v, true
	}
	if env.local != nil {
		if v, ok := env.local(name); ok {
			return v, true
		}
	}
	return Val{}, false
}

func (env *Env) ident(name string) (Val, error) {
	fx := env.fx
	switch name {
	case "true":
		return Val{T: types.Typ[types.Bool], L: []string{tTrue}}, nil
	case "false":
		return Val{T: types.Typ[types.Bool], L: []string{tFalse}}, nil
	case "nil":
		return Val{T: types.Typ[types.UntypedNil]}, nil
	}
	if name == "result" && len(env.results) > 0 {
		return env.results[0], nil
	}
	if v, ok := env.lookupName(name); ok {
		return v, nil
	}
	if name == "result" {
		if len(env.results) == 0 {
			return Val{}, fmt.Errorf("no result here")
		}
		return env.results[0], nil
	}
	if strings.HasPrefix(name, "result") {
		if i, err := strconv.Atoi(name[6:]); err == nil && i < len(env.results) {
			return env.results[i], nil
		}
	}
	if g, ok := fx.e.ghosts[name]; ok {
		return specVal(fx.heapVar(env.heap, "ghost."+g.Name, g.Sort)), nil
	}
	if name == "alloc" {
		return specVal(fx.heapVar(env.heap, "$alloc", "Int")), nil
	}
	if env.pkg != nil {
		if obj := env.pkg.Scope().Lookup(name); obj != nil {
			switch o := obj.(type) {
			case *types.Const:
				return env.constObj(o)
			case *types.Var:
				return env.pkgObject(env.pkg, name)
			}
		}
	}
	switch name {
	case "MaxInt64":
		return specVal("9223372036854775807"), nil
	case "MinInt64":
		return specVal("(- 9223372036854775808)"), nil
	case "MaxInt32":
		return specVal("2147483647"), nil
	}
	return Val{}, fmt.Errorf("unknown identifier %q", name)
}

func (env *Env) selectField(x Val, name string) (Val, error) {
	fx := env.fx
	if x.T == nil {
		return Val{}, fmt.Errorf("selector .%s on untyped spec value", name)
	}
	obj, index, _ := types.LookupFieldOrMethod(x.T, true, env.pkg, name)
	if obj == nil {
		// try with the declaring package of the type
		if n, ok := unalias(derefT(x.T)).(*types.Named); ok && n.Obj().Pkg() != nil {
			obj, index, _ = types.LookupFieldOrMethod(x.T, true, n.Obj().Pkg(), name)
		}
	}
	if _, ok := obj.(*types.Var); !ok {
		return Val{}, fmt.Errorf("no field %s in %v", name, x.T)
	}
	cur := x
	for _, idx := range index {
		if isPointer(cur.T) {
			owner := elemOf(cur.T)
			st, ok := fx.structOf(owner)
			if !ok {
				return Val{}, fmt.Errorf("field of non-struct pointer %v", cur.T)
			}
			f := st.Field(idx)
			if _, ok := fx.structOf(f.Type()); ok {
				cur = Val{T: types.NewPointer(f.Type()), L: []string{fx.subAddr(cur.one(), owner, idx)}}
				continue
			}
			cur = fx.loadField(env.heap, cur.one(), owner, idx)
			// values stored in the heap are well-typed (lengths are non-negative, integers in range ...)
			if wt := fx.wellTyped(cur, nil); wt != tTrue && len(env.bound) == 0 {
				fx.assume(wt) // guarded by the reachability of the current program point
			}
			if len(env.bound) == 0 && !fx.inTypeInv {
				// objects reachable from the heap satisfy their representation invariant
				fx.inTypeInv = true
				saved := fx.cur
				if env.heap != nil {
					fx.assumeTypeInvIn(cur, env.heap)
				}
				fx.cur = saved
				fx.inTypeInv = false
			}
			continue
		}
		st, ok := fx.structOf(cur.T)
		if !ok {
			return Val{}, fmt.Errorf("field of non-struct %v", cur.T)
		}
		off := 0
		for i := 0; i < idx; i++ {
			off += fx.e.nleaves(st.Field(i).Type())
		}
		ft := st.Field(idx).Type()
		cur = Val{T: ft, L: cur.L[off : off+fx.e.nleaves(ft)]}
	}
	// a trailing pointer-to-embedded-struct means the struct value itself was selected
	if v, ok := obj.(*types.Var); ok {
		if _, isS := fx.structOf(v.Type()); isS && isPointer(cur.T) && !isPointer(v.Type()) {
			// keep as address: callers use it for further selection
			return cur, nil
		}
	}
	return cur, nil
}

func derefT(t types.Type) types.Type {
	if isPointer(t) {
		return elemOf(t)
	}
	return t
}

func (env *Env) binary(n *ast.BinaryExpr) (Val, error) {
	fx := env.fx
	a, err := env.eval(n.X)
	if err != nil {
		return Val{}, err
	}
	b, err := env.eval(n.Y)
	if err != nil {
		return Val{}, err
	}
	bt := types.Typ[types.Bool]
	switch n.Op {
	case token.LAND:
		return Val{T: bt, L: []string{sAnd(a.one(), b.one())}}, nil
	case token.LOR:
		return Val{T: bt, L: []string{sOr(a.one(), b.one())}}, nil
	case token.EQL, token.NEQ:
		eq, err := env.equal(a, b)
		if err != nil {
			return Val{}, err
		}
		if n.Op == token.NEQ {
			eq = sNot(eq)
		}
		return Val{T: bt, L: []string{eq}}, nil
	case token.LSS, token.LEQ, token.GTR, token.GEQ:
		if a.T != nil && isString(a.T) || b.T != nil && isString(b.T) {
			fx.c.usesStrOrd = true
			x, y := a.one(), b.one()
			switch n.Op {
			case token.LSS:
				return Val{T: bt, L: []string{app("str_lt", x, y)}}, nil
			case token.GTR:
				return Val{T: bt, L: []string{app("str_lt", y, x)}}, nil
			case token.LEQ:
				return Val{T: bt, L: []string{sNot(app("str_lt", y, x))}}, nil
			default:
				return Val{T: bt, L: []string{sNot(app("str_lt", x, y))}}, nil
			}
		}
		op := map[token.Token]string{token.LSS: "<", token.LEQ: "<=", token.GTR: ">", token.GEQ: ">="}[n.Op]
		x, y := a.one(), b.one()
		x, y = env.numCoerce(a, b, x, y)
		return Val{T: bt, L: []string{app(op, x, y)}}, nil
	case token.ADD, token.SUB, token.MUL:
		op := map[token.Token]string{token.ADD: "+", token.SUB: "-", token.MUL: "*"}[n.Op]
		x, y := a.one(), b.one()
		x, y = env.numCoerce(a, b, x, y)
		t := a.T
		if t == nil || isUntyped(t) {
			t = b.T
		}
		return Val{T: t, L: []string{app(op, x, y)}}, nil
	case token.QUO:
		return Val{T: a.T, L: []string{app("div", a.one(), b.one())}}, nil
	case token.REM:
		return Val{T: a.T, L: []string{app("mod", a.one(), b.one())}}, nil
	}
	return Val{}, fmt.Errorf("unsupported operator %v", n.Op)
}

func isUntyped(t types.Type) bool {
	b, ok := t.(*types.Basic)
	return ok && b.Info()&types.IsUntyped != 0
}

func (env *Env) numCoerce(a, b Val, x, y string) (string, string) {
	af := a.T != nil && isFloat(a.T)
	bf := b.T != nil && isFloat(b.T)
	if af && !bf && !strings.Contains(y, ".") {
		y = app("to_real", y)
	}
	if bf && !af && !strings.Contains(x, ".") {
		x = app("to_real", x)
	}
	return x, y
}

func isNilVal(v Val) bool {
	if b, ok := v.T.(*types.Basic); ok && b.Kind() == types.UntypedNil {
		return true
	}
	return false
}

func (env *Env) equal(a, b Val) (string, error) {
	if isNilVal(b) {
		a, b = b, a
	}
	if isNilVal(a) {
		if isNilVal(b) {
			return tTrue, nil
		}
		return env.fx.isNil(b), nil
	}
	// interface vs concrete pointer: compare payloads and type
	if a.T != nil && b.T != nil && isInterface(a.T) != isInterface(b.T) {
		if isInterface(b.T) {
			a, b = b, a
		}
		// a is the interface
		if len(b.L) == 1 {
			if isPointer(b.T) {
				return sAnd(sEq(a.L[0], intLit(int64(env.fx.e.tt.id(b.T)))), sEq(a.L[1], b.L[0])), nil
			}
			return sEq(a.L[1], b.L[0]), nil
		}
	}
	if len(a.L) == 2 && len(b.L) == 1 && a.T != nil && isInterface(a.T) {
		return sEq(a.L[1], b.L[0]), nil
	}
	if len(b.L) == 2 && len(a.L) == 1 && b.T != nil && isInterface(b.T) {
		return sEq(a.L[0], b.L[1]), nil
	}
	// []byte against Str: compare contents
	if a.T != nil && isSlice(a.T) && len(b.L) == 1 {
		return sEq(env.bytesStr(a), b.L[0]), nil
	}
	if b.T != nil && isSlice(b.T) && len(a.L) == 1 {
		return sEq(env.bytesStr(b), a.L[0]), nil
	}
	if len(a.L) != len(b.L) {
		return "", fmt.Errorf("cannot compare values with %d and %d components", len(a.L), len(b.L))
	}
	var parts []string
	for i := range a.L {
		x, y := a.L[i], b.L[i]
		if len(a.L) == 1 {
			x, y = env.numCoerce(a, b, x, y)
		}
		parts = append(parts, sEq(x, y))
	}
	return sAnd(parts...), nil
}

func (fx *FnExec) isNil(v Val) string {
	if v.T == nil {
		return sEq(v.L[0], "0")
	}
	if isTypeParam(v.T) {
		return sEq(v.L[0], "0")
	}
	switch under(v.T).(type) {
	case *types.Slice:
		return v.L[0]
	case *types.Interface:
		return sEq(v.L[0], "0")
	case *types.Struct, *types.Array:
		return tFalse
	case *types.Basic:
		if !isTypeParam(v.T) && under(v.T).(*types.Basic).Kind() != types.UnsafePointer && under(v.T).(*types.Basic).Kind() != types.UntypedNil {
			return tFalse
		}
	}
	if v.Loc != nil {
		return tFalse
	}
	return sEq(v.L[0], "0")
}

func (env *Env) call(n *ast.CallExpr) (Val, error) {
	fx := env.fx
	fname := ""
	if id, ok := n.Fun.(*ast.Ident); ok {
		fname = id.Name
	}
	bt := types.Typ[types.Bool]
	arg := func(i int) (Val, error) {
		if i >= len(n.Args) {
			return Val{}, fmt.Errorf("%s: missing argument %d", fname, i)
		}
		return env.eval(n.Args[i])
	}
	switch fname {
	case "old":
		if env.old == nil {
			return Val{}, fmt.Errorf("old() not available here")
		}
		ne := *env
		ne.heap = env.old
		return ne.eval(n.Args[0])
	case "implies":
		a, err := arg(0)
		if err != nil {
			return Val{}, err
		}
		b, err := arg(1)
		if err != nil {
			return Val{}, err
		}
		return Val{T: bt, L: []string{sImp(a.one(), b.one())}}, nil
	case "iff":
		a, err := arg(0)
		if err != nil {
			return Val{}, err
		}
		b, err := arg(1)
		if err != nil {
			return Val{}, err
		}
		return Val{T: bt, L: []string{sEq(a.one(), b.one())}}, nil
	case "ite":
		c, err := arg(0)
		if err != nil {
			return Val{}, err
		}
		a, err := arg(1)
		if err != nil {
			return Val{}, err
		}
		b, err := arg(2)
		if err != nil {
			return Val{}, err
		}
		if len(a.L) != len(b.L) {
			return Val{}, fmt.Errorf("ite branches differ in shape")
		}
		out := Val{T: a.T}
		for i := range a.L {
			out.L = append(out.L, sIte(c.one(), a.L[i], b.L[i]))
		}
		return out, nil
	case "fnof", "bound":
		// fnof(f): identity of the function a (statically known) function value denotes; bound(f, i): its i-th bound
		// value (the receiver of a method value is binding 0). Unknown function values give unconstrained terms.
		a, err := arg(0)
		if err != nil {
			return Val{}, err
		}
		if fname == "fnof" {
			if a.Fn != nil {
				return specVal(fx.funcHandle(a.Fn.Fn)), nil
			}
			return specVal(fx.c.fresh("fnof", "Int")), nil
		}
		lit, ok := n.Args[1].(*ast.BasicLit)
		if !ok {
			return Val{}, fmt.Errorf("bound(f, <index literal>)")
		}
		k, _ := strconv.Atoi(lit.Value)
		if a.Fn != nil && k < len(a.Fn.Bindings) {
			return Val{T: a.Fn.Bindings[k].T, L: a.Fn.Bindings[k].L}, nil
		}
		return specVal(fx.c.fresh("bound", "Int")), nil
	case "fnid":
		// fnid("<ssa function name>"): the identity constant of a named function (as printed by go/ssa)
		lit, ok := n.Args[0].(*ast.BasicLit)
		if !ok || lit.Kind != token.STRING {
			return Val{}, fmt.Errorf("fnid(\"name\")")
		}
		name, _ := strconv.Unquote(lit.Value)
		h := smtName("fn." + name)
		fx.c.declare(h, "Int")
		return specVal(h), nil
	case "mkiface":
		// mkiface(typ, payload): the interface value with that dynamic type id and payload (for ghosts that store both)
		a, err := arg(0)
		if err != nil {
			return Val{}, err
		}
		b, err := arg(1)
		if err != nil {
			return Val{}, err
		}
		return Val{T: types.NewInterfaceType(nil, nil), L: []string{env.idxTerm(a), env.idxTerm(b)}}, nil
	case "iterseen":
		// iterseen(k): has the innermost enclosing map iteration already produced key k?
		k, err := arg(0)
		if err != nil {
			return Val{}, err
		}
		if fx.curBlock == nil {
			return Val{}, fmt.Errorf("iterseen outside a loop")
		}
		var best *ssa.Range
		var bestH *ssa.BasicBlock
		for h, li := range fx.loops {
			if li.blocks[fx.curBlock] || h == fx.curBlock {
				for _, in := range h.Instrs {
					if nx, ok := in.(*ssa.Next); ok {
						if rng, ok := nx.Iter.(*ssa.Range); ok {
							if _, _, ok := fx.iterSeenName(rng); ok && (bestH == nil || bestH.Index < h.Index) {
								best, bestH = rng, h
							}
						}
					}
				}
			}
		}
		if best == nil {
			return Val{}, fmt.Errorf("iterseen: no enclosing map iteration")
		}
		n, srt, _ := fx.iterSeenName(best)
		m := under(best.X.Type()).(*types.Map)
		return Val{T: bt, L: []string{sSel(fx.heapVar(env.heap, n, srt), fx.mapKeyTerm(m.Key(), k))}}, nil
	case "arr":
		a, err := arg(0)
		if err != nil {
			return Val{}, err
		}
		if a.T == nil || !isSlice(a.T) || len(a.L) != 3 {
			return Val{}, fmt.Errorf("arr(slice of a single-leaf element type)")
		}
		return specVal(a.L[2]), nil
	case "forall", "exists", "forallStr", "existsStr", "forallB", "existsB", "forallStrArr":
		id, ok := n.Args[0].(*ast.Ident)
		if !ok || (len(n.Args) != 2 && len(n.Args) != 3) {
			return Val{}, fmt.Errorf("%s(var, body [, trigger term])", fname)
		}
		srt := "Int"
		var vt types.Type = types.Typ[types.UntypedInt]
		if strings.HasSuffix(fname, "Str") {
			srt = "Str"
			vt = types.Typ[types.String]
		}
		if strings.HasSuffix(fname, "StrArr") {
			srt = "(Array Int Str)"
			vt = nil
		}
		fx.c.nfresh++
		qv := fmt.Sprintf("q!%s!%d", id.Name, fx.c.nfresh)
		body, err := env.with(id.Name, Val{T: vt, L: []string{qv}}).eval(n.Args[1])
		if err != nil {
			return Val{}, err
		}
		q := "forall"
		if strings.HasPrefix(fname, "exists") {
			q = "exists"
		}
		if len(n.Args) == 3 {
			// explicit instantiation trigger (keeps the solver from instantiating on every term of the sort)
			tr, err := env.with(id.Name, Val{T: vt, L: []string{qv}}).eval(n.Args[2])
			if err != nil {
				return Val{}, err
			}
			return Val{T: bt, L: []string{fmt.Sprintf("(%s ((%s %s)) (! %s :pattern (%s)))", q, qv, srt, body.one(), env.idxTerm(tr))}}, nil
		}
		return Val{T: bt, L: []string{fmt.Sprintf("(%s ((%s %s)) %s)", q, qv, srt, body.one())}}, nil
	case "len":
		a, err := arg(0)
		if err != nil {
			return Val{}, err
		}
		if a.T != nil && isSlice(a.T) {
			return Val{T: types.Typ[types.Int], L: []string{a.L[1]}}, nil
		}
		if a.T != nil && isString(a.T) || a.T == nil {
			return Val{T: types.Typ[types.Int], L: []string{app("str_len", a.one())}}, nil
		}
		if _, ok := under(a.T).(*types.Map); ok {
			names := fx.mapHeapNames(a.T)
			hv := fx.heapVar(env.heap, names[len(names)-1], "")
			return Val{T: types.Typ[types.Int], L: []string{sSel(hv, a.one())}}, nil
		}
		return Val{}, fmt.Errorf("len of %v", a.T)
	case "str":
		a, err := arg(0)
		if err != nil {
			return Val{}, err
		}
		if a.T != nil && isSlice(a.T) {
			return Val{T: types.Typ[types.String], L: []string{env.bytesStr(a)}}, nil
		}
		return Val{T: types.Typ[types.String], L: []string{a.one()}}, nil
	case "dyn":
		a, err := arg(0)
		if err != nil {
			return Val{}, err
		}
		if a.T == nil || !isInterface(a.T) {
			// a value of a non-interface static type: its dynamic type is its static type
			if a.T != nil {
				return specVal(intLit(int64(fx.e.tt.id(a.T)))), nil
			}
			return specVal("0"), nil
		}
		return specVal(a.L[0]), nil
	case "ref":
		a, err := arg(0)
		if err != nil {
			return Val{}, err
		}
		return specVal(env.idxTerm(a)), nil
	case "istype":
		a, err := arg(0)
		if err != nil {
			return Val{}, err
		}
		t, err := env.typeExpr(n.Args[1])
		if err != nil {
			return Val{}, err
		}
		if a.T == nil || !isInterface(a.T) {
			return Val{}, fmt.Errorf("istype of non-interface")
		}
		if isInterface(t) {
			ids := fx.e.implementors(t)
			var alts []string
			for _, id := range ids {
				alts = append(alts, sEq(a.L[0], intLit(int64(id))))
			}
			return Val{T: bt, L: []string{sOr(alts...)}}, nil
		}
		return Val{T: bt, L: []string{sEq(a.L[0], intLit(int64(fx.e.tt.id(t))))}}, nil
	case "as":
		// as(x, *T): the payload of interface x viewed as *T (no check)
		a, err := arg(0)
		if err != nil {
			return Val{}, err
		}
		t, err := env.typeExpr(n.Args[1])
		if err != nil {
			return Val{}, err
		}
		if a.T != nil && isInterface(a.T) {
			if isPointer(t) {
				return Val{T: t, L: []string{a.L[1]}}, nil
			}
			return fx.unbox(a.L[1], t), nil
		}
		return Val{T: t, L: a.L}, nil
	case "box":
		// box(x): the interface value holding x, typed by x's static type
		a, err := arg(0)
		if err != nil {
			return Val{}, err
		}
		var it types.Type = types.NewInterfaceType(nil, nil)
		if len(n.Args) > 1 {
			it, err = env.typeExpr(n.Args[1])
			if err != nil {
				return Val{}, err
			}
		}
		return fx.makeInterface(a, it), nil
	case "fresh":
		a, err := arg(0)
		if err != nil {
			return Val{}, err
		}
		if env.old == nil {
			return Val{}, fmt.Errorf("fresh() needs an old state")
		}
		oa := fx.heapVar(env.old, "$alloc", "Int")
		return Val{T: bt, L: []string{sAnd(sLe(oa, env.idxTerm(a)), sLt(env.idxTerm(a), fx.heapVar(env.heap, "$alloc", "Int")))}}, nil
	case "allocated":
		a, err := arg(0)
		if err != nil {
			return Val{}, err
		}
		return Val{T: bt, L: []string{sLt(env.idxTerm(a), fx.heapVar(env.heap, "$alloc", "Int"))}}, nil
	case "sel":
		a, err := arg(0)
		if err != nil {
			return Val{}, err
		}
		i, err := arg(1)
		if err != nil {
			return Val{}, err
		}
		return specVal(sSel(a.one(), env.idxTerm(i))), nil
	case "sto":
		a, err := arg(0)
		if err != nil {
			return Val{}, err
		}
		i, err := arg(1)
		if err != nil {
			return Val{}, err
		}
		v, err := arg(2)
		if err != nil {
			return Val{}, err
		}
		return specVal(sSto(a.one(), env.idxTerm(i), env.idxTerm(v))), nil
	case "min", "max":
		a, err := arg(0)
		if err != nil {
			return Val{}, err
		}
		b, err := arg(1)
		if err != nil {
			return Val{}, err
		}
		if fname == "min" {
			return Val{T: a.T, L: []string{sIte(sLe(a.one(), b.one()), a.one(), b.one())}}, nil
		}
		return Val{T: a.T, L: []string{sIte(sLe(a.one(), b.one()), b.one(), a.one())}}, nil
	case "called":
		// called(Name, n): the n-th call of a function or method called Name lies on the path taken (its block was
		// reached); false if there is no such call at all
		id, ok := n.Args[0].(*ast.Ident)
		if !ok || len(n.Args) != 2 {
			return Val{}, fmt.Errorf("called(Name, n)")
		}
		lit, ok := n.Args[1].(*ast.BasicLit)
		if !ok {
			return Val{}, fmt.Errorf("called(Name, n)")
		}
		ord, _ := strconv.Atoi(lit.Value)
		call := fx.callRets[fmt.Sprintf("%s@%d", id.Name, ord)]
		if call == nil {
			return Val{T: bt, L: []string{tFalse}}, nil
		}
		if r, done := fx.reach[call.Block()]; done {
			return Val{T: bt, L: []string{r}}, nil
		}
		return Val{T: bt, L: []string{tFalse}}, nil
	case "ret":
		// ret(Name, n [, k]): (the k-th result of) the n-th call of a function or method called Name in this function;
		// independent of what the local variable holding it is called
		id, ok := n.Args[0].(*ast.Ident)
		if !ok || len(n.Args) < 2 {
			return Val{}, fmt.Errorf("ret(Name, n [, k])")
		}
		lit, ok := n.Args[1].(*ast.BasicLit)
		if !ok {
			return Val{}, fmt.Errorf("ret(Name, n [, k])")
		}
		ord, _ := strconv.Atoi(lit.Value)
		call := fx.callRets[fmt.Sprintf("%s@%d", id.Name, ord)]
		if call == nil {
			return Val{}, fmt.Errorf("unknown identifier %q (no %d-th call of that name on a path to this point)", id.Name, ord)
		}
		if _, have := fx.vals[call]; !have {
			return Val{}, fmt.Errorf("unknown identifier %q (call %d not executed yet)", id.Name, ord)
		}
		if fx.curBlock != nil && call.Block() != fx.curBlock && !call.Block().Dominates(fx.curBlock) {
			r, done := fx.reach[call.Block()]
			if !done || fx.localGuards == nil {
				return Val{}, fmt.Errorf("unknown identifier %q (call %d is not on every path to this point)", id.Name, ord)
			}
			*fx.localGuards = append(*fx.localGuards, r)
		}
		v := fx.val(call)
		if len(n.Args) == 3 {
			kl, ok := n.Args[2].(*ast.BasicLit)
			if !ok {
				return Val{}, fmt.Errorf("ret(Name, n, k)")
			}
			k, _ := strconv.Atoi(kl.Value)
			rs := splitResults(fx, v, call.Common().Signature().Results())
			if k < 0 || k >= len(rs) {
				return Val{}, fmt.Errorf("ret: no result %d", k)
			}
			return rs[k], nil
		}
		return v, nil
	case "cellof":
		// cellof(x): the current content of the address-taken local variable x
		id, ok := n.Args[0].(*ast.Ident)
		if !ok {
			return Val{}, fmt.Errorf("cellof(name)")
		}
		for _, b := range fx.fn.Blocks {
			for _, in := range b.Instrs {
				if a, ok := in.(*ssa.Alloc); ok && (a.Comment == id.Name || (fx.rename[id.Name] != "" && a.Comment == fx.rename[id.Name])) {
					pv, have := fx.vals[a]
					if !have {
						return Val{}, fmt.Errorf("unknown identifier %q (cell not allocated yet)", id.Name)
					}
					return fx.load(env.heap, pv), nil
				}
			}
		}
		return Val{}, fmt.Errorf("unknown identifier %q (no address-taken local of that name)", id.Name)
	case "fv", "local":
		id, ok := n.Args[0].(*ast.Ident)
		if !ok {
			return Val{}, fmt.Errorf("%s(name)", fname)
		}
		if fname == "local" && len(n.Args) == 2 {
			// local(x, k): the k-th (source order, 1-based) variable named x of the function
			lit, ok := n.Args[1].(*ast.BasicLit)
			if !ok {
				return Val{}, fmt.Errorf("local(name, k)")
			}
			k, _ := strconv.Atoi(lit.Value)
			if v, ok := fx.localNth(id.Name, k); ok {
				return v, nil
			}
			return Val{}, fmt.Errorf("unknown identifier %q (no %d-th local of that name on a path to this point)", id.Name, k)
		}
		if fname == "local" && env.local != nil {
			// the current value of a local variable (a reassigned parameter's name alone denotes its entry value)
			if v, ok := env.local(id.Name); ok {
				return v, nil
			}
		}
		if v, ok := env.lookupName(id.Name); ok {
			return v, nil
		}
		return Val{}, fmt.Errorf("unknown identifier %q", id.Name)
	case "has":
		m, err := arg(0)
		if err != nil {
			return Val{}, err
		}
		k, err := arg(1)
		if err != nil {
			return Val{}, err
		}
		mt, ok := under(m.T).(*types.Map)
		if m.T == nil || !ok {
			return Val{}, fmt.Errorf("has(map, key)")
		}
		names := fx.mapHeapNames(m.T)
		dom := fx.heapVar(env.heap, names[0], "")
		return Val{T: bt, L: []string{sSel(sSel(dom, m.one()), fx.mapKeyTerm(mt.Key(), k))}}, nil
	case "str_contains", "str_concat", "str_upper", "str_lower", "str_lt", "str_sub", "str_at", "str_set", "str_splice", "str_zeros", "str_len", "byte1":
		var as []string
		for i := range n.Args {
			a, err := arg(i)
			if err != nil {
				return Val{}, err
			}
			as = append(as, env.idxTerm(a))
		}
		var t types.Type = types.Typ[types.String]
		if fname == "str_contains" || fname == "str_lt" {
			t = bt
		}
		if fname == "str_at" || fname == "str_len" {
			t = types.Typ[types.Int]
		}
		return Val{T: t, L: []string{app(fname, as...)}}, nil
	case "constmethod":
		// constmethod(x, M): the result of calling the parameterless method M on interface value x, where every
		// implementation either has a contract `ensures[const] result == C` or is left uninterpreted
		a, err := arg(0)
		if err != nil {
			return Val{}, err
		}
		id, ok := n.Args[1].(*ast.Ident)
		if !ok || a.T == nil || !isInterface(a.T) {
			return Val{}, fmt.Errorf("constmethod(interfaceValue, MethodName)")
		}
		t, rt, _, err := fx.constMethodTerm(a, id.Name)
		if err != nil {
			return Val{}, err
		}
		return Val{T: rt, L: []string{t}}, nil
	case "in":
		id, ok := n.Args[0].(*ast.Ident)
		if !ok {
			return Val{}, fmt.Errorf("in(param)")
		}
		if w, ok := fx.ins[id.Name]; ok {
			return Val{T: types.Typ[types.String], L: []string{w}}, nil
		}
		return Val{T: types.Typ[types.String], L: []string{fx.c.fresh("in", "Str")}}, nil
	case "out":
		id, ok := n.Args[0].(*ast.Ident)
		if !ok {
			return Val{}, fmt.Errorf("out(param)")
		}
		if w, ok := fx.outs[id.Name]; ok {
			return Val{T: types.Typ[types.String], L: []string{w}}, nil
		}
		// not a local buffer at this call site: unconstrained
		return Val{T: types.Typ[types.String], L: []string{fx.c.fresh("out", "Str")}}, nil
	case "typeid":
		t, err := env.typeExpr(n.Args[0])
		if err != nil {
			return Val{}, err
		}
		return specVal(intLit(int64(fx.e.tt.id(t)))), nil
	case "real":
		a, err := arg(0)
		if err != nil {
			return Val{}, err
		}
		return Val{T: types.Typ[types.Float64], L: []string{app("to_real", a.one())}}, nil
	}
	if dd, ok := fx.e.cs.Defines[fname]; ok {
		if len(n.Args) != len(dd.Params) {
			return Val{}, fmt.Errorf("define %s: %d args, want %d", fname, len(n.Args), len(dd.Params))
		}
		ne := env
		for i, p := range dd.Params {
			a, err := arg(i)
			if err != nil {
				return Val{}, err
			}
			ne = ne.with(p, a)
		}
		body, err := parseSpecExpr(dd.Text)
		if err != nil {
			return Val{}, fmt.Errorf("define %s: %v", fname, err)
		}
		return ne.eval(body)
	}
	if sd, ok := fx.e.specs[fname]; ok {
		var args []string
		for i := range n.Args {
			a, err := arg(i)
			if err != nil {
				return Val{}, err
			}
			if a.T != nil && isStruct(a.T) && len(a.L) > 1 {
				args = append(args, a.L...)
			} else {
				args = append(args, env.idxTerm(a))
			}
		}
		if len(args) != len(sd.Args) {
			return Val{}, fmt.Errorf("spec %s: %d args, want %d", fname, len(args), len(sd.Args))
		}
		if err := fx.resolveSpecRet(env, sd); err != nil {
			return Val{}, err
		}
		fx.useSpec(sd)
		var t types.Type = sd.GoRet
		switch sd.Ret {
		case "Bool":
			t = bt
		case "Str":
			t = types.Typ[types.String]
		case "Real":
			t = types.Typ[types.Float64]
		}
		return Val{T: t, L: []string{app(smtName(sd.Name), args...)}}, nil
	}
	return Val{}, fmt.Errorf("unknown function %q in contract expression", exprString(n.Fun))
}

func exprString(x ast.Expr) string {
	var sb strings.Builder
	switch n := x.(type) {
	case *ast.Ident:
		return n.Name
	case *ast.SelectorExpr:
		return exprString(n.X) + "." + n.Sel.Name
	}
	fmt.Fprintf(&sb, "%T", x)
	return sb.String()
}

// typeExpr resolves *T, T, pkg.T
func (env *Env) typeExpr(x ast.Expr) (types.Type, error) {
	switch n := x.(type) {
	case *ast.StarExpr:
		t, err := env.typeExpr(n.X)
		if err != nil {
			return nil, err
		}
		return types.NewPointer(t), nil
	case *ast.ParenExpr:
		return env.typeExpr(n.X)
	case *ast.Ident:
		if env.pkg != nil {
			if tn, ok := env.pkg.Scope().Lookup(n.Name).(*types.TypeName); ok {
				return tn.Type(), nil
			}
		}
		if tn, ok := types.Universe.Lookup(n.Name).(*types.TypeName); ok {
			return tn.Type(), nil
		}
		return nil, fmt.Errorf("unknown type %s", n.Name)
	case *ast.SelectorExpr:
		if id, ok := n.X.(*ast.Ident); ok {
			if p := env.fx.e.pkgByName(id.Name); p != nil {
				if tn, ok := p.Scope().Lookup(n.Sel.Name).(*types.TypeName); ok {
					return tn.Type(), nil
				}
			}
		}
	case *ast.MapType:
		k, err := env.typeExpr(n.Key)
		if err != nil {
			return nil, err
		}
		v, err := env.typeExpr(n.Value)
		if err != nil {
			return nil, err
		}
		return types.NewMap(k, v), nil
	case *ast.ArrayType:
		if n.Len == nil {
			el, err := env.typeExpr(n.Elt)
			if err != nil {
				return nil, err
			}
			return types.NewSlice(el), nil
		}
	case *ast.InterfaceType:
		if n.Methods == nil || len(n.Methods.List) == 0 {
			return types.NewInterfaceType(nil, nil), nil
		}
	case *ast.UnaryExpr:
		if n.Op == token.MUL {
			t, err := env.typeExpr(n.X)
			if err != nil {
				return nil, err
			}
			return types.NewPointer(t), nil
		}
	}
	return nil, fmt.Errorf("bad type expression")
}

// resolveSpecRet: a spec function may declare a Go type as its result (e.g. *int64); the SMT sort is its leaf sort
func (fx *FnExec) resolveSpecRet(env *Env, sd *SpecDecl) error {
	if sd.retResolved {
		return nil
	}
	sd.retResolved = true
	switch {
	case sd.Ret == "Int", sd.Ret == "Bool", sd.Ret == "Real", sd.Ret == "Str", strings.HasPrefix(sd.Ret, "("):
		return nil
	}
	ex, err := parseSpecExpr(sd.Ret)
	if err != nil {
		return err
	}
	e2 := *env
	if p := fx.e.tpkgs[sd.PkgPath]; p != nil {
		e2.pkg = p
	}
	t, err := e2.typeExpr(ex)
	if err != nil {
		return fmt.Errorf("spec %s: result type: %v", sd.Name, err)
	}
	ls := fx.e.leaves(t)
	if len(ls) != 1 {
		return fmt.Errorf("spec %s: result type %v is not a single-leaf type", sd.Name, t)
	}
	sd.GoRet = t
	sd.Ret = ls[0].Sort
	return nil
}

// useSpec makes sure the spec function is declared in the current context
func (fx *FnExec) useSpec(sd *SpecDecl) {
	n := smtName(sd.Name)
	if fx.c.declared[n] {
		return
	}
	fx.c.declared[n] = true
	if sd.Body == "" {
		fx.c.items = append(fx.c.items, fmt.Sprintf("(declare-fun %s (%s) %s)", n, strings.Join(sd.Args, " "), sd.Ret))
		fx.useAxioms(sd.Name)
		return
	}
	// bodies may use other spec functions: declare those first
	for _, other := range fx.e.cs.Specs {
		if other != sd && strings.Contains(sd.Body, other.Name) && (strings.Contains(sd.Body, "("+other.Name+" ") || strings.Contains(sd.Body, " "+other.Name+")") || strings.Contains(sd.Body, " "+other.Name+" ")) {
			fx.useSpec(other)
		}
	}
	var ps []string
	for i, a := range sd.ArgNames {
		ps = append(ps, fmt.Sprintf("(%s %s)", a, sd.Args[i]))
	}
	kw := "define-fun"
	if sd.Rec {
		kw = "define-fun-rec"
	}
	fx.c.items = append(fx.c.items, fmt.Sprintf("(%s %s (%s) %s %s)", kw, n, strings.Join(ps, " "), sd.Ret, sd.Body))
}

func mentions(text, name string) bool {
	for _, pre := range []string{"(", " "} {
		for _, suf := range []string{" ", ")"} {
			if strings.Contains(text, pre+name+suf) {
				return true
			}
		}
	}
	return false
}

// useAxioms includes every axiom/lemma that mentions the spec function (declaring what else it mentions)
func (fx *FnExec) useAxioms(name string) {
	for _, ax := range fx.e.cs.Axioms {
		key := "axiom:" + ax.Name
		// an axiom named <spec>_<suffix> belongs to spec function <spec>
		subject := ax.Name
		if i := strings.Index(subject, "_"); i >= 0 {
			subject = subject[:i]
		}
		if fx.c.declared[key] || subject != name {
			continue
		}
		fx.c.declared[key] = true
		for _, other := range fx.e.cs.Specs {
			if mentions(ax.Text, other.Name) {
				fx.useSpec(other)
			}
		}
		fx.c.comment("axiom " + ax.Name)
		fx.c.items = append(fx.c.items, "(assert "+ax.Text+")")
		fx.e.axiomUsed[ax.Name] = true
	}
}

// constMethodTerm builds ite(typ = id1, C1, ite(typ = id2, C2, ... unknown(typ, payload)))
func (fx *FnExec) constMethodTerm(x Val, method string) (string, types.Type, string, error) {
	ids := fx.e.implementors(x.T)
	unk := smtName("method." + method)
	var rt types.Type
	term := ""
	type alt struct {
		id int
		c  string
	}
	var alts []alt
	for _, id := range ids {
		t := fx.e.tt.types[id-1]
		ms := fx.e.prog.MethodSets.MethodSet(t)
		var sel *types.Selection
		for i := 0; i < ms.Len(); i++ {
			if ms.At(i).Obj().Name() == method {
				sel = ms.At(i)
			}
		}
		if sel == nil {
			continue
		}
		obj := sel.Obj().(*types.Func)
		sig := obj.Type().(*types.Signature)
		if sig.Results().Len() != 1 {
			return "", nil, "", fmt.Errorf("constmethod: %s must return one value", method)
		}
		rt = sig.Results().At(0).Type()
		c := fx.e.contracts[funcKeyOf(obj)]
		if c == nil {
			continue
		}
		for _, en := range c.Ens {
			if en.Label == "const" && strings.HasPrefix(en.Text, "result == ") {
				env := &Env{fx: fx, names: map[string]Val{}, heap: &fx.cur, pkg: obj.Pkg()}
				ex, err := parseSpecExpr(strings.TrimPrefix(en.Text, "result == "))
				if err != nil {
					continue
				}
				v, err := env.eval(ex)
				if err != nil || len(v.L) != 1 {
					continue
				}
				alts = append(alts, alt{id, v.L[0]})
			}
		}
	}
	if rt == nil {
		return "", nil, "", fmt.Errorf("constmethod: no implementation of %s found", method)
	}
	srt := fx.e.leaves(rt)[0].Sort
	fx.c.declareFun(unk, []string{"Int", "Int"}, srt)
	term = app(unk, x.L[0], x.L[1])
	var known []string
	for i := len(alts) - 1; i >= 0; i-- {
		term = sIte(sEq(x.L[0], intLit(int64(alts[i].id))), alts[i].c, term)
		known = append(known, sEq(x.L[0], intLit(int64(alts[i].id))))
	}
	return term, rt, sOr(known...), nil
}

// viewOf: ghost[obj] for an object whose concrete type has a `view` declaration
func (env *Env) viewOf(ghost string, obj Val) (Val, bool, error) {
	fx := env.fx
	if obj.T == nil || len(fx.e.cs.Views) == 0 {
		return Val{}, false, nil
	}
	var concrete types.Type
	var ptr string
	if isPointer(obj.T) && obj.Loc == nil {
		concrete = obj.T
		ptr = obj.L[0]
	} else if isInterface(obj.T) && len(obj.L) == 2 {
		// dynamic type known as a literal?
		for _, id := range fx.e.tt.sortedIds() {
			if obj.L[0] == intLit(int64(id)) {
				concrete = fx.e.tt.types[id-1]
				ptr = obj.L[1]
			}
		}
	}
	if gd := fx.e.ghosts[ghost]; concrete == nil && isInterface(obj.T) && len(obj.L) == 2 && !env.inViewDispatch && gd != nil && gd.Dispatch {
		// dynamic type unknown: case split over the pointer types that define a view of this ghost
		raw := sSel(fx.heapVar(env.heap, "ghost."+ghost, ""), obj.L[1])
		out := raw
		var T types.Type
		n := 0
		for i := len(fx.e.cs.Views) - 1; i >= 0; i-- {
			vd := fx.e.cs.Views[i]
			if vd.Ghost != ghost {
				continue
			}
			tp := fx.e.tpkgs[vd.PkgPath]
			if tp == nil {
				continue
			}
			tn, ok := tp.Scope().Lookup(vd.Type).(*types.TypeName)
			if !ok {
				continue
			}
			pt := types.NewPointer(tn.Type())
			id := fx.e.tt.id(pt)
			ne := *env
			ne.inViewDispatch = true
			v, ok2, err := ne.viewOf(ghost, Val{T: obj.T, L: []string{intLit(int64(id)), obj.L[1]}})
			if err != nil {
				return Val{}, false, err
			}
			if !ok2 || len(v.L) != 1 {
				continue
			}
			out = sIte(sEq(obj.L[0], intLit(int64(id))), v.L[0], out)
			T = v.T
			n++
		}
		if n == 0 {
			return Val{}, false, nil
		}
		return Val{T: T, L: []string{out}}, true, nil
	}
	if concrete == nil {
		return Val{}, false, nil
	}
	var nt *types.Named
	selfV := Val{T: concrete, L: []string{ptr}}
	if isPointer(concrete) {
		n, ok := unalias(elemOf(concrete)).(*types.Named)
		if !ok {
			return Val{}, false, nil
		}
		nt = n
	} else {
		n, ok := unalias(concrete).(*types.Named)
		if !ok {
			return Val{}, false, nil
		}
		nt = n
		selfV = fx.unbox(ptr, concrete)
	}
	if nt.Obj().Pkg() == nil {
		return Val{}, false, nil
	}
	for _, vd := range fx.e.cs.Views {
		if vd.Ghost != ghost || vd.Type != nt.Origin().Obj().Name() || vd.PkgPath != nt.Obj().Pkg().Path() {
			continue
		}
		ex, err := parseSpecExpr(vd.Text)
		if err != nil {
			return Val{}, false, fmt.Errorf("%s:%d: %v", vd.File, vd.Line, err)
		}
		ne := &Env{fx: fx, names: map[string]Val{"self": selfV}, heap: env.heap, old: env.old, pkg: nt.Obj().Pkg(), bound: env.bound}
		v, err := ne.eval(ex)
		if err != nil {
			return Val{}, false, fmt.Errorf("%s:%d: %v", vd.File, vd.Line, err)
		}
		return v, true, nil
	}
	return Val{}, false, nil
}
