package main

import (
	"fmt"
	"go/ast"
	"go/token"
	"go/types"
	"sort"
	"strings"

	"golang.org/x/tools/go/ssa"
)

// ---------------------------------------------------------------------------
// calls: always through the callee's contract
// ---------------------------------------------------------------------------

func (fx *FnExec) calleeContract(cc *ssa.CallCommon) (*Contract, string) {
	if cc.IsInvoke() {
		k := funcKeyOf(cc.Method)
		if c := fx.e.contracts[k]; c != nil {
			return c, k
		}
		// default contract of the interface the method is declared in
		if sig, ok := cc.Method.Type().(*types.Signature); ok && sig.Recv() != nil {
			if n, ok := unalias(sig.Recv().Type()).(*types.Named); ok && n.Obj().Pkg() != nil {
				dk := "ifacedefault:" + n.Obj().Pkg().Path() + "." + n.Obj().Name()
				if c := fx.e.contracts[dk]; c != nil {
					return c, dk
				}
			}
		}
		return nil, k
	}
	if fn := cc.StaticCallee(); fn != nil {
		k := keyOfFunction(fn)
		return fx.e.contracts[k], k
	}
	if n, ok := unalias(cc.Value.Type()).(*types.Named); ok && n.Obj().Pkg() != nil {
		k := "functype:" + n.Obj().Pkg().Path() + "." + n.Obj().Name()
		return fx.e.contracts[k], k
	}
	// a function passed as a parameter of the function under verification: contract `funcparam F.p`
	if prm, ok := cc.Value.(*ssa.Parameter); ok && prm.Parent() == fx.fn {
		k := "funcparam:" + fx.key + "." + prm.Name()
		if c := fx.e.contracts[k]; c != nil {
			return c, k
		}
		// the parameter may have been renamed since the contract was written
		if fx.con != nil && fx.con.Obj != nil {
			if bs := baseSigFor(fx.key, fx.con.Obj); bs != nil {
				for i, p := range fx.fn.Params {
					off := 1
					if fx.fn.Signature.Recv() != nil {
						off = 0
					}
					if p == prm && i+off < len(bs) {
						k2 := "funcparam:" + fx.key + "." + bs[i+off]
						if c := fx.e.contracts[k2]; c != nil {
							return c, k2
						}
					}
				}
			}
		}
	}
	// a parameter of the enclosing function called from inside a closure (captured variable): same `funcparam F.p`
	{
		var fv *ssa.FreeVar
		switch v := cc.Value.(type) {
		case *ssa.FreeVar:
			fv = v
		case *ssa.UnOp:
			if f, ok := v.X.(*ssa.FreeVar); ok && v.Op == token.MUL {
				fv = f
			}
		}
		if fv != nil && fx.fn.Parent() != nil {
			k := "funcparam:" + keyOfFunction(fx.fn.Parent()) + "." + fv.Name()
			if c := fx.e.contracts[k]; c != nil {
				return c, k
			}
		}
	}
	// a function stored in a struct field: contract `funcfield T.f`
	if u, ok := cc.Value.(*ssa.UnOp); ok {
		if fa, ok := u.X.(*ssa.FieldAddr); ok {
			if nt, ok := unalias(elemOf(fa.X.Type())).(*types.Named); ok && nt.Obj().Pkg() != nil {
				if st, ok := nt.Underlying().(*types.Struct); ok {
					k := "funcfield:" + nt.Obj().Pkg().Path() + "." + nt.Origin().Obj().Name() + "." + st.Field(fa.Field).Name()
					return fx.e.contracts[k], k
				}
			}
		}
	}
	return nil, "dynamic call"
}

func (fx *FnExec) calleeIsPure(cc *ssa.CallCommon) bool {
	// fmt.Stringer convention: String() string only reads
	isStringer := func(name string, sig *types.Signature) bool {
		return name == "String" && sig.Params().Len() == 0 && sig.Results().Len() == 1 && isString(sig.Results().At(0).Type())
	}
	if cc.IsInvoke() && isStringer(cc.Method.Name(), cc.Method.Type().(*types.Signature)) {
		return true
	}
	if fn := cc.StaticCallee(); fn != nil && isStringer(fn.Name(), fn.Signature) {
		return true
	}
	if cc.IsInvoke() {
		// methods of foreign interfaces (error.Error, fmt.Stringer...) are treated as read-only
		if cc.Method.Pkg() == nil {
			return true // error.Error
		}
		return fx.e.purePkgs[cc.Method.Pkg().Path()]
	}
	if fn := cc.StaticCallee(); fn != nil && fn.Pkg != nil {
		return fx.e.purePkgs[fn.Pkg.Pkg.Path()]
	}
	if fn := cc.StaticCallee(); fn != nil && fn.Object() != nil && fn.Object().Pkg() != nil {
		return fx.e.purePkgs[fn.Object().Pkg().Path()]
	}
	return false
}

type modTarget struct {
	names []string
	idx   string // "" = whole variable
}

// calleeEnv binds the callee's parameter names to actual arguments
func (fx *FnExec) calleeEnv(con *Contract, recv *Val, args []Val, heap, old *Heap, results []Val) *Env {
	env := &Env{fx: fx, names: map[string]Val{}, heap: heap, old: old, results: results}
	if con.Obj == nil {
		env.pkg = fx.e.tpkgs[con.PkgPath]
		if recv != nil {
			env.names["self"] = *recv
		}
	}
	if con.FuncT != nil {
		env.pkg = fx.e.tpkgs[con.PkgPath]
		if recv != nil {
			env.names["self"] = *recv
		}
		for i, n := range con.Params {
			if i < len(args) && n != "" && n != "_" {
				env.names[n] = args[i]
			}
		}
	}
	if con.Obj != nil {
		env.pkg = con.Obj.Pkg()
		sig := con.Obj.Type().(*types.Signature)
		if recv != nil {
			if con.IsIface {
				env.names["self"] = *recv
			} else if sig.Recv() != nil && sig.Recv().Name() != "" {
				env.names[sig.Recv().Name()] = *recv
				env.names["self"] = *recv
			} else {
				env.names["self"] = *recv
			}
		}
		names := contractParamNames(con)
		for i, n := range names {
			if i < len(args) && n != "" && n != "_" {
				env.names[n] = args[i]
			}
		}
		// names the parameters had on the baselined tree (renames only, see names.go)
		if len(con.Params) == 0 {
			if bs := baseSigFor(con.Key, con.Obj); bs != nil {
				if recv != nil && bs[0] != "" && bs[0] != "_" && !con.IsIface {
					if _, clash := env.names[bs[0]]; !clash {
						env.names[bs[0]] = *recv
					}
				}
				for i := range args {
					if 1+i < len(bs) && bs[1+i] != "" && bs[1+i] != "_" {
						if _, clash := env.names[bs[1+i]]; !clash {
							env.names[bs[1+i]] = args[i]
						}
					}
				}
			}
		}
		// positional names a0, a1...
		for i := range args {
			env.names[fmt.Sprintf("arg%d", i)] = args[i]
		}
		if res := sig.Results(); res != nil && results != nil {
			for i := 0; i < res.Len() && i < len(results); i++ {
				if n := res.At(i).Name(); n != "" && n != "_" {
					if _, clash := env.names[n]; !clash {
						env.names[n] = results[i]
					}
				}
			}
		}
	}
	return env
}

func (fx *FnExec) resolveMod(env *Env, text string) ([]modTarget, bool, error) {
	text = strings.TrimSpace(text)
	if text == "*" {
		return nil, true, nil
	}
	if strings.HasPrefix(text, "any ") {
		// any T.f : the field in every object
		rest := strings.TrimSpace(text[4:])
		parts := strings.Split(rest, ".")
		if len(parts) < 2 {
			return nil, false, fmt.Errorf("modifies any T.f")
		}
		tn := strings.Join(parts[:len(parts)-1], ".")
		ex, err := parseSpecExpr(tn)
		if err != nil {
			return nil, false, err
		}
		t, err := env.typeExpr(ex)
		if err != nil {
			return nil, false, err
		}
		st, ok := fx.structOf(t)
		if !ok {
			return nil, false, fmt.Errorf("modifies any: %s is not a struct", tn)
		}
		fname := parts[len(parts)-1]
		var out []modTarget
		for i := 0; i < st.NumFields(); i++ {
			f := st.Field(i)
			if fname != "*" && f.Name() != fname {
				continue
			}
			mods := map[string]bool{}
			if _, isS := fx.structOf(f.Type()); isS {
				fx.typeMods(f.Type(), mods)
			} else {
				for _, l := range fx.e.leaves(f.Type()) {
					n := fieldHeapName(t, f, l.Path)
					mods[n] = true
					if _, ok := fx.e.heapSort[n]; !ok {
						fx.e.heapSort[n] = arraySort("Int", l.Sort)
					}
				}
			}
			out = append(out, modTarget{names: sortedKeys(mods)})
		}
		if len(out) == 0 {
			return nil, false, fmt.Errorf("modifies any: no field %s in %s", fname, tn)
		}
		return out, false, nil
	}
	// x.* form
	if strings.HasSuffix(text, ".*") {
		ex, err := parseSpecExpr(strings.TrimSuffix(text, ".*"))
		if err != nil {
			return nil, false, err
		}
		v, err := env.eval(ex)
		if err != nil {
			return nil, false, err
		}
		if v.T == nil || !isPointer(v.T) {
			return nil, false, fmt.Errorf("modifies %s: not a pointer", text)
		}
		var out []modTarget
		fx.structTargets(v.one(), elemOf(v.T), &out)
		return out, false, nil
	}
	ex, err := parseSpecExpr(text)
	if err != nil {
		return nil, false, err
	}
	switch n := ex.(type) {
	case *ast.Ident:
		if g, ok := fx.e.ghosts[n.Name]; ok {
			return []modTarget{{names: []string{"ghost." + g.Name}}}, false, nil
		}
		// package-level variable
		if env.pkg != nil {
			if sp := fx.e.prog.Package(env.pkg); sp != nil {
				if gv := sp.Var(n.Name); gv != nil {
					var names []string
					for _, l := range fx.e.leaves(elemOf(gv.Type())) {
						nm := globalName(gv, l.Path)
						names = append(names, nm)
						if _, ok := fx.e.heapSort[nm]; !ok {
							fx.e.heapSort[nm] = l.Sort
						}
					}
					return []modTarget{{names: names}}, false, nil
				}
			}
		}
		return nil, false, fmt.Errorf("modifies %s: unknown", text)
	case *ast.IndexExpr:
		if id, ok := n.X.(*ast.Ident); ok {
			if g, ok := fx.e.ghosts[id.Name]; ok {
				iv, err := env.eval(n.Index)
				if err != nil {
					return nil, false, err
				}
				return []modTarget{{names: []string{"ghost." + g.Name}, idx: env.idxTerm(iv)}}, false, nil
			}
		}
		return nil, false, fmt.Errorf("modifies %s: unsupported index target", text)
	case *ast.StarExpr:
		v, err := env.eval(n.X)
		if err != nil {
			return nil, false, err
		}
		if v.T != nil && isInterface(v.T) && len(v.L) == 2 {
			// *x for an interface value x: the location its (statically known) pointer payload designates;
			// with an unknown dynamic type the callee may write anywhere
			var concrete types.Type
			for _, id := range fx.e.tt.sortedIds() {
				if v.L[0] == intLit(int64(id)) {
					concrete = fx.e.tt.types[id-1]
				}
			}
			if concrete == nil || !isPointer(concrete) {
				return nil, true, nil
			}
			v = Val{T: concrete, L: []string{v.L[1]}}
		}
		if v.T == nil || !isPointer(v.T) || v.Loc != nil {
			return nil, false, fmt.Errorf("modifies %s: not a plain pointer", text)
		}
		et := elemOf(v.T)
		if _, isS := fx.structOf(et); isS {
			var out []modTarget
			fx.structTargets(v.one(), et, &out)
			return out, false, nil
		}
		var names []string
		for _, l := range fx.e.leaves(et) {
			nm := cellName(et, l.Path)
			names = append(names, nm)
			if _, ok := fx.e.heapSort[nm]; !ok {
				fx.e.heapSort[nm] = arraySort("Int", l.Sort)
			}
		}
		return []modTarget{{names: names, idx: v.one()}}, false, nil
	case *ast.SelectorExpr:
		bv, err := env.eval(n.X)
		if err != nil {
			return nil, false, err
		}
		if bv.T == nil {
			return nil, false, fmt.Errorf("modifies %s: untyped base", text)
		}
		obj, index, _ := types.LookupFieldOrMethod(bv.T, true, env.pkg, n.Sel.Name)
		if obj == nil {
			if nn, ok := unalias(derefT(bv.T)).(*types.Named); ok && nn.Obj().Pkg() != nil {
				obj, index, _ = types.LookupFieldOrMethod(bv.T, true, nn.Obj().Pkg(), n.Sel.Name)
			}
		}
		if _, ok := obj.(*types.Var); !ok {
			return nil, false, fmt.Errorf("modifies %s: no such field", text)
		}
		cur := bv
		for k, idx := range index {
			if !isPointer(cur.T) {
				return nil, false, fmt.Errorf("modifies %s: field of a struct value", text)
			}
			owner := elemOf(cur.T)
			st, ok := fx.structOf(owner)
			if !ok {
				return nil, false, fmt.Errorf("modifies %s: not a struct", text)
			}
			f := st.Field(idx)
			last := k == len(index)-1
			if _, isS := fx.structOf(f.Type()); isS {
				sub := fx.subAddr(cur.one(), owner, idx)
				if last {
					var out []modTarget
					fx.structTargets(sub, f.Type(), &out)
					return out, false, nil
				}
				cur = Val{T: types.NewPointer(f.Type()), L: []string{sub}}
				continue
			}
			if last {
				var names []string
				for _, l := range fx.e.leaves(f.Type()) {
					nm := fieldHeapName(owner, f, l.Path)
					names = append(names, nm)
					if _, ok := fx.e.heapSort[nm]; !ok {
						fx.e.heapSort[nm] = arraySort("Int", l.Sort)
					}
				}
				return []modTarget{{names: names, idx: cur.one()}}, false, nil
			}
			cur = fx.loadField(env.heap, cur.one(), owner, idx)
		}
	}
	return nil, false, fmt.Errorf("modifies %s: unsupported target", text)
}

func sortedKeys(m map[string]bool) []string {
	var out []string
	for k := range m {
		out = append(out, k)
	}
	sort.Strings(out)
	return out
}

func (fx *FnExec) structTargets(addr string, t types.Type, out *[]modTarget) {
	st, ok := fx.structOf(t)
	if !ok {
		return
	}
	for i := 0; i < st.NumFields(); i++ {
		f := st.Field(i)
		if _, isS := fx.structOf(f.Type()); isS {
			fx.structTargets(fx.subAddr(addr, t, i), f.Type(), out)
			continue
		}
		var names []string
		for _, l := range fx.e.leaves(f.Type()) {
			nm := fieldHeapName(t, f, l.Path)
			names = append(names, nm)
			if _, ok := fx.e.heapSort[nm]; !ok {
				fx.e.heapSort[nm] = arraySort("Int", l.Sort)
			}
		}
		*out = append(*out, modTarget{names: names, idx: addr})
	}
}

// modTargetNames: static resolution (names only) for the loop pre-pass
func (fx *FnExec) modTargetNames(con *Contract, cc *ssa.CallCommon, text string) ([]string, bool) {
	var recv *Val
	var args []Val
	dummy := func(t types.Type) Val {
		v := Val{T: t}
		for range fx.e.leaves(t) {
			v.L = append(v.L, "0")
		}
		return v
	}
	if cc.IsInvoke() {
		r := dummy(cc.Value.Type())
		recv = &r
		for _, a := range cc.Args {
			args = append(args, dummy(a.Type()))
		}
	} else {
		as := cc.Args
		if cc.Signature().Recv() != nil && len(as) > 0 {
			r := dummy(as[0].Type())
			recv = &r
			as = as[1:]
		}
		for _, a := range as {
			args = append(args, dummy(a.Type()))
		}
	}
	mark := fx.c.mark()
	nf := fx.c.nfresh
	h := Heap{vers: map[string]string{}, epoch: -1}
	env := fx.calleeEnv(con, recv, args, &h, nil, nil)
	ts, all, err := fx.resolveMod(env, text)
	// discard anything emitted during the dry run except declarations (harmless)
	_ = mark
	_ = nf
	if err != nil || all {
		return nil, true
	}
	var out []string
	for _, t := range ts {
		out = append(out, t.names...)
	}
	return out, false
}

func (fx *FnExec) call(instr ssa.Instruction, cc *ssa.CallCommon, pos token.Pos) (Val, error) {
	resT := cc.Signature().Results()
	var resultType types.Type = resT
	if resT.Len() == 1 {
		resultType = resT.At(0).Type()
	}
	if b, ok := cc.Value.(*ssa.Builtin); ok {
		return fx.builtin(b, cc, instr, pos)
	}
	var recv *Val
	var args []Val
	if cc.IsInvoke() {
		r := fx.val(cc.Value)
		recv = &r
		fx.oblige("nil", "", sNot(sEq(r.L[0], "0")), "method call on nil interface: "+cc.Method.Name(), pos)
		for _, a := range cc.Args {
			args = append(args, fx.plain(fx.val(a)))
		}
	} else {
		as := cc.Args
		if cc.Signature().Recv() != nil && len(as) > 0 {
			r := fx.plain(fx.val(as[0]))
			recv = &r
			as = as[1:]
		}
		for _, a := range as {
			args = append(args, fx.plain(fx.val(a)))
		}
	}
	con, key := fx.calleeContract(cc)
	if con != nil && recv == nil && !cc.IsInvoke() && cc.StaticCallee() == nil {
		// contract on a function value: `self` is the function value (functype) or the struct holding it (funcfield)
		if con.Flags["funcfield"] != "" {
			if u, ok := cc.Value.(*ssa.UnOp); ok {
				if fa, ok := u.X.(*ssa.FieldAddr); ok {
					r := fx.plain(fx.val(fa.X))
					recv = &r
				}
			}
		} else {
			r := fx.plain(fx.val(cc.Value))
			recv = &r
		}
	}
	var result Val
	if con == nil && cc.IsInvoke() && fx.e.closedWorld(cc.Value.Type()) {
		if r, ok, err := fx.dispatchPure(cc, recv, args, resultType, resT, pos); err != nil {
			return Val{}, err
		} else if ok {
			return r, nil
		}
	}
	if con != nil {
		var err error
		// parameters the callee writes into (contract flag `writes p`): the argument must be a local buffer;
		// out(p) in the postcondition is the new content of that region
		fx.outs = map[string]string{}
		fx.ins = map[string]string{}
		var written []struct {
			b *bufRef
			w string
		}
		if wp := con.Flags["writes"]; wp != "" {
			names := contractParamNames(con)
			as := cc.Args
			if !cc.IsInvoke() && cc.Signature().Recv() != nil && len(as) > 0 {
				as = as[1:]
			}
			for i, n := range names {
				if n != wp || i >= len(as) {
					continue
				}
				if b, ok := fx.bufs[as[i]]; ok {
					w := fx.c.fresh("written", "Str")
					fx.assume(sEq(app("str_len", w), b.len))
					fx.outs[n] = w
					cur := fx.heapVar(&fx.cur, b.name, "Str")
					fx.ins[n] = app("str_sub", cur, b.off, sAdd(b.off, b.len))
					written = append(written, struct {
						b *bufRef
						w string
					}{b, w})
				} else {
					fx.abstract("callee writes into a slice that is not a local buffer: " + displayKey(key))
				}
			}
		}
		result, err = fx.applyContract(con, key, recv, args, resultType, resT, pos)
		if err != nil {
			return Val{}, err
		}
		for _, wr := range written {
			fx.bufSplice(wr.b, wr.w)
		}
		fx.outs = nil
	} else {
		// a call of a function value held in a named local (`for _, action := range ...; action(x)`): the caller's
		// `callpre` clauses may name it by that local ("action@1")
		if !cc.IsInvoke() && cc.StaticCallee() == nil && fx.con != nil && fx.con.CallPre != nil {
			var names []string
			for n, vs := range fx.names {
				for _, v := range vs {
					if v == cc.Value {
						names = append(names, n)
					}
				}
			}
			sort.Strings(names)
			for _, n := range names {
				ck := fmt.Sprintf("%s@%d", n, fx.ord("call:fnvalue:"+n))
				if err := fx.emitCallPre([]string{ck}, "the function value "+n, recv, args, pos); err != nil {
					return Val{}, err
				}
			}
		}
		if fx.calleeIsPure(cc) {
			fx.usedContracts["pure-package:"+key] = true
		} else {
			fx.uncontracted[key] = true
			fx.havocAll(&fx.cur)
		}
		result = fx.freshVal(resultType, "r."+shortName(key))
		fx.assume(fx.wellTyped(result, &fx.cur))
		fx.assumeResultTypes(result, resT)
	}
	for _, r := range splitResults(fx, result, resT) {
		fx.assumeTypeInvOf(r, tTrue)
	}
	// a method re-establishes its receiver's representation invariant before it returns (obligation typeinv-exit
	// of the callee), so the caller may rely on it afterwards
	if recv != nil && !cc.IsInvoke() {
		if callee := cc.StaticCallee(); callee != nil && callee.Signature.Recv() != nil && len(callee.Blocks) > 0 && callee.Pkg != nil && strings.HasPrefix(callee.Pkg.Pkg.Path(), repoMod) {
			fx.assumeTypeInvOf(*recv, tTrue)
		}
	}
	if fx.errflow {
		fx.trackErr(result, resT, key, pos)
	}
	return result, nil
}

func shortName(key string) string {
	if i := strings.LastIndex(key, "."); i >= 0 {
		return key[i+1:]
	}
	return key
}

// assumeResultTypes: well-typedness of each tuple component
func (fx *FnExec) assumeResultTypes(result Val, resT *types.Tuple) {
	if resT.Len() <= 1 {
		return
	}
	off := 0
	for i := 0; i < resT.Len(); i++ {
		n := fx.e.nleaves(resT.At(i).Type())
		if off+n <= len(result.L) {
			fx.assume(fx.wellTyped(Val{T: resT.At(i).Type(), L: result.L[off : off+n]}, &fx.cur))
		}
		off += n
	}
}

func splitResults(fx *FnExec, result Val, resT *types.Tuple) []Val {
	if resT.Len() == 0 {
		return nil
	}
	if resT.Len() == 1 {
		return []Val{result}
	}
	var out []Val
	off := 0
	for i := 0; i < resT.Len(); i++ {
		n := fx.e.nleaves(resT.At(i).Type())
		if off+n > len(result.L) {
			break
		}
		out = append(out, Val{T: resT.At(i).Type(), L: result.L[off : off+n]})
		off += n
	}
	return out
}

// emitCallPre states the caller's `callpre` clauses for the call that is about to happen; cks are the spellings under
// which the clauses may name the callee ("Name@n")
func (fx *FnExec) emitCallPre(cks []string, what string, recv *Val, args []Val, pos token.Pos) error {
	if fx.con != nil && fx.con.CallPre != nil {
		for _, ck := range cks {
		fx.seenCallPre[ck] = true
		for i, r := range fx.con.CallPre[ck] {
			cenv := fx.specEnv(&fx.cur, &fx.entry, nil)
			for j := range args {
				cenv.names[fmt.Sprintf("arg%d", j)] = args[j]
			}
			if recv != nil {
				cenv.names["recv"] = *recv
			}
			t, err := cenv.evalBool(r.Text)
			if err != nil {
				return fmt.Errorf("%s:%d: %v", r.File, r.Line, err)
			}
			lab := ck + "."
			if r.Label != "" {
				lab += r.Label
			} else {
				lab += fmt.Sprint(i + 1)
			}
			o := fx.oblige("callpre", lab, t, "before the call of "+what+": "+r.Text, pos)
			o.Props = fx.con.Props
			// `clauseprops <label-prefix> Cxx Cyy`: this clause belongs to those properties only
			if cp := strings.Fields(fx.con.Flags["clauseprops"]); len(cp) > 1 && r.Label != "" && strings.HasPrefix(r.Label, cp[0]) {
				o.Props = cp[1:]
				o.OnlyProps = true
			}
		}
		}
	}
	return nil
}

func (fx *FnExec) applyContract(con *Contract, key string, recv *Val, args []Val, resultType types.Type, resT *types.Tuple, pos token.Pos) (Val, error) {
	fx.inContractApply = true
	defer func() { fx.inContractApply = false }()
	fx.usedContracts[key] = true
	callOrd := fx.ord("call:" + key)
	env0 := fx.calleeEnv(con, recv, args, &fx.cur, nil, nil)
	for i, r := range con.Req {
		if r.Kind == "assume" {
			continue
		}
		t, err := env0.evalBool(r.Text)
		if err != nil {
			return Val{}, fmt.Errorf("%s:%d: %v", r.File, r.Line, err)
		}
		lab := fmt.Sprintf("%s@%d.", shortName(key), callOrd)
		if r.Label != "" {
			lab += r.Label
		} else {
			lab += fmt.Sprint(i + 1)
		}
		fx.oblige("pre", lab, t, "precondition of "+displayKey(key)+": "+r.Text, pos)
	}
	{
		// the clause names the callee by its short name, or - where two callees share it - by its display key with or
		// without the package prefix
		dk := displayKey(key)
		cks := []string{fmt.Sprintf("%s@%d", shortName(key), callOrd), fmt.Sprintf("%s@%d", dk, callOrd)}
		if i := strings.Index(dk, "."); i >= 0 {
			cks = append(cks, fmt.Sprintf("%s@%d", dk[i+1:], callOrd))
		}
		// for a package-level function the short name and the key without its package coincide: one clause, one obligation
		if err := fx.emitCallPre(dedup(cks), displayKey(key), recv, args, pos); err != nil {
			return Val{}, err
		}
	}
	old := fx.cur.clone()
	oldAlloc := fx.heapVar(&fx.cur, "$alloc", "Int")
	if con.ModAll || (len(con.Mod) == 0 && con.Flags["pure"] == "" && !hasModClause(con)) {
		fx.havocAll(&fx.cur)
		// private ghosts named next to `*` change as well
		for _, m := range con.Mod {
			ts, all, err := fx.resolveMod(env0, m)
			if err != nil || all {
				continue
			}
			for _, t := range ts {
				for _, n := range t.names {
					if !strings.HasPrefix(n, "ghost.") && !fx.isImmutable(n) {
						continue
					}
					if t.idx == "" {
						fx.havocVar(&fx.cur, n)
						continue
					}
					srt := fx.e.heapSort[n]
					es := strings.TrimSuffix(strings.TrimPrefix(srt, "(Array Int "), ")")
					hv := fx.heapVar(&fx.cur, n, srt)
					fx.heapSet(&fx.cur, n, srt, sSto(hv, t.idx, fx.c.fresh("mod", es)))
				}
			}
		}
	} else {
		var targets []modTarget
		for _, m := range con.Mod {
			ts, all, err := fx.resolveMod(env0, m)
			if err != nil {
				return Val{}, fmt.Errorf("%s:%d: %v", con.File, con.Line, err)
			}
			if all {
				// `*` does not include private ghosts: those are changed only when named as well
				fx.havocAll(&fx.cur)
				continue
			}
			targets = append(targets, ts...)
		}
		for _, t := range targets {
			for _, n := range t.names {
				if t.idx == "" {
					fx.havocVar(&fx.cur, n)
					continue
				}
				srt := fx.e.heapSort[n]
				// element sort of (Array Int X)
				es := strings.TrimSuffix(strings.TrimPrefix(srt, "(Array Int "), ")")
				hv := fx.heapVar(&fx.cur, n, srt)
				fx.heapSet(&fx.cur, n, srt, sSto(hv, t.idx, fx.c.fresh("mod", es)))
			}
		}
		if pn := con.Flags["invokes"]; pn != "" && fx.cur.epoch == old.epoch {
			fx.invokedClosureMods(env0, pn)
		}
		fx.havocVar(&fx.cur, "$alloc")
		fx.assume(sLe(oldAlloc, fx.heapVar(&fx.cur, "$alloc", "Int")))
	}
	if con.Flags["pure"] == "" {
		// volatile ghosts: any call that is not pure may change them
		for _, g := range fx.e.cs.Ghosts {
			if g.Volatile {
				fx.e.heapSort["ghost."+g.Name] = g.Sort
				fx.havocVar(&fx.cur, "ghost."+g.Name)
			}
		}
	}
	result := fx.freshVal(resultType, "r."+shortName(key))
	fx.assume(fx.wellTyped(result, &fx.cur))
	fx.assumeResultTypes(result, resT)
	results := splitResults(fx, result, resT)
	env1 := fx.calleeEnv(con, recv, args, &fx.cur, &old, results)
	for _, en := range con.Ens {
		if en.Kind == "lensures" {
			continue
		}
		t, err := env1.evalBool(en.Text)
		if err != nil {
			return Val{}, fmt.Errorf("%s:%d: %v", en.File, en.Line, err)
		}
		fx.c.comment("ensures of " + displayKey(key) + ": " + en.Text)
		fx.assume(t)
	}
	return result, nil
}

func hasModClause(con *Contract) bool {
	return con.HasMod
}

// ---------------------------------------------------------------------------
// builtins
// ---------------------------------------------------------------------------

func (fx *FnExec) builtin(b *ssa.Builtin, cc *ssa.CallCommon, instr ssa.Instruction, pos token.Pos) (Val, error) {
	var args []Val
	for _, a := range cc.Args {
		args = append(args, fx.val(a))
	}
	var rt types.Type
	if v, ok := instr.(ssa.Value); ok {
		rt = v.Type()
	}
	switch b.Name() {
	case "len":
		a := args[0]
		t := cc.Args[0].Type()
		switch {
		case isSlice(t):
			return Val{T: rt, L: []string{a.L[1]}}, nil
		case isString(t):
			return Val{T: rt, L: []string{app("str_len", a.one())}}, nil
		}
		if _, ok := under(t).(*types.Map); ok {
			names := fx.mapHeapNames(t)
			lv := fx.heapVar(&fx.cur, names[len(names)-1], "")
			r := sSel(lv, a.one())
			fx.assume(sLe("0", r))
			return Val{T: rt, L: []string{sIte(sEq(a.one(), "0"), "0", r)}}, nil
		}
		r := fx.freshVal(rt, "len")
		fx.assume(sLe("0", r.one()))
		return r, nil
	case "cap":
		r := fx.freshVal(rt, "cap")
		if isSlice(cc.Args[0].Type()) {
			fx.assume(sLe(args[0].L[1], r.one()))
		}
		return r, nil
	case "append":
		s := args[0]
		st := cc.Args[0].Type()
		et := elemOf(st)
		if len(args) < 2 {
			return s, nil
		}
		other := args[1]
		ot := cc.Args[1].Type()
		nl := fx.e.leaves(et)
		out := Val{T: rt}
		if isString(ot) {
			// append([]byte, string...)
			arr := fx.c.fresh("app", arraySort("Int", "Int"))
			n := sAdd(s.L[1], app("str_len", other.one()))
			fx.assume(sEq(app("bytes_str", arr, n), app("str_concat", app("bytes_str", s.L[2], s.L[1]), other.one())))
			return Val{T: rt, L: []string{sAnd(s.L[0], sEq(app("str_len", other.one()), "0")), n, arr}}, nil
		}
		// is the second argument a one-element literal slice? ssa builds variadic appends as slices
		if one, ok := fx.singleElem(cc.Args[1]); ok {
			out.L = []string{tFalse, sAdd(s.L[1], "1")}
			for i := range nl {
				out.L = append(out.L, sSto(s.L[2+i], s.L[1], one.L[i]))
			}
			fx.assume(sLe(s.L[1], "9223372036854775806"))
			if isSlice(st) && (typeKey(et) == "byte" || typeKey(et) == "uint8") && len(out.L) == 3 {
				// the bytes of append(b, x) are the bytes of b followed by x
				fx.assume(sEq(app("bytes_str", out.L[2], out.L[1]), app("str_concat", app("bytes_str", s.L[2], s.L[1]), app("byte1", one.L[0]))))
			}
			return out, nil
		}
		// general case: concatenation, described by quantified facts
		n := sAdd(s.L[1], other.L[1])
		out.L = []string{sAnd(s.L[0], sEq(other.L[1], "0")), n}
		for i, l := range nl {
			na := fx.c.fresh("app", arraySort("Int", l.Sort))
			fx.c.nfresh++
			q := fmt.Sprintf("q!i!%d", fx.c.nfresh)
			fx.assume(fmt.Sprintf("(forall ((%s Int)) (! (= (select %s %s) (ite (< %s %s) (select %s %s) (select %s (- %s %s)))) :pattern ((select %s %s))))",
				q, na, q, q, s.L[1], s.L[2+i], q, other.L[2+i], q, s.L[1], na, q))
			out.L = append(out.L, na)
		}
		if isSlice(st) && typeKey(et) == "byte" || typeKey(et) == "uint8" {
			fx.assume(sEq(app("bytes_str", out.L[2], n), app("str_concat", app("bytes_str", s.L[2], s.L[1]), app("bytes_str", other.L[2], other.L[1]))))
		}
		return out, nil
	case "copy":
		if b, ok := fx.bufs[cc.Args[0]]; ok {
			src := args[1]
			var srcStr, srcLen string
			if isString(cc.Args[1].Type()) {
				srcStr, srcLen = src.one(), app("str_len", src.one())
			} else {
				srcStr, srcLen = app("bytes_str", src.L[2], src.L[1]), src.L[1]
			}
			n := sIte(sLe(srcLen, b.len), srcLen, b.len)
			fx.bufSplice(b, app("str_sub", srcStr, "0", n))
			return Val{T: rt, L: []string{n}}, nil
		}
		fx.abstract("copy() into a slice (slices are immutable values)")
		r := fx.freshVal(rt, "copy")
		return r, nil
	case "delete":
		mt := cc.Args[0].Type()
		m, ok := under(mt).(*types.Map)
		if !ok {
			return Val{T: rt}, nil
		}
		names := fx.mapHeapNames(mt)
		k := fx.mapKeyTerm(m.Key(), args[1])
		dom := fx.heapVar(&fx.cur, names[0], "")
		mv := args[0].one()
		fx.heapSet(&fx.cur, names[0], "", sSto(dom, mv, sSto(sSel(dom, mv), k, tFalse)))
		ln := names[len(names)-1]
		lv := fx.heapVar(&fx.cur, ln, "")
		nl := fx.c.fresh("maplen", "Int")
		fx.assume(sAnd(sLe("0", nl), sLe(nl, sSel(lv, mv))))
		fx.heapSet(&fx.cur, ln, "", sSto(lv, mv, nl))
		return Val{T: rt}, nil
	case "panic":
		fx.oblige("unreachable", "", tFalse, "panic is unreachable", pos)
		return Val{T: rt}, nil
	case "min", "max":
		r := args[0].one()
		for _, a := range args[1:] {
			if b.Name() == "min" {
				r = sIte(sLe(r, a.one()), r, a.one())
			} else {
				r = sIte(sLe(r, a.one()), a.one(), r)
			}
		}
		return Val{T: rt, L: []string{r}}, nil
	case "print", "println":
		return Val{T: rt}, nil
	}
	fx.abstract("builtin " + b.Name())
	if rt != nil {
		return fx.freshVal(rt, "builtin"), nil
	}
	return Val{}, nil
}

// singleElem recognises the SSA shape of a variadic argument holding exactly one element:
//   t0 = new [1]T ; t1 = &t0[0] ; *t1 = x ; t2 = slice t0[:]
func (fx *FnExec) singleElem(v ssa.Value) (Val, bool) {
	sl, ok := v.(*ssa.Slice)
	if !ok {
		return Val{}, false
	}
	al, ok := sl.X.(*ssa.Alloc)
	if !ok {
		return Val{}, false
	}
	arr, ok := under(elemOf(al.Type())).(*types.Array)
	if !ok || arr.Len() != 1 {
		return Val{}, false
	}
	for _, ref := range *al.Referrers() {
		if ia, ok := ref.(*ssa.IndexAddr); ok {
			for _, r2 := range *ia.Referrers() {
				if st, ok := r2.(*ssa.Store); ok && st.Addr == ia {
					return fx.val(st.Val), true
				}
			}
		}
	}
	return Val{}, false
}

// ---------------------------------------------------------------------------
// return: postconditions, frame, error flow
// ---------------------------------------------------------------------------

func (fx *FnExec) ret(x *ssa.Return) error {
	var results []Val
	for _, r := range x.Results {
		results = append(results, fx.plain(fx.val(r)))
	}
	fx.retBlocks++
	// a method re-establishes the representation invariant of its receiver (and of the object it is embedded in)
	if fx.fn.Signature.Recv() != nil && len(fx.fn.Params) > 0 {
		objs := []Val{fx.vals[fx.fn.Params[0]]}
		if fx.outerVal != nil {
			objs = append(objs, *fx.outerVal)
		}
		for _, ov := range objs {
			if t, err := fx.typeInvFact(ov, &fx.cur); err != nil {
				return err
			} else if t != tTrue {
				fx.oblige("typeinv-exit", "", sImp(sNot(fx.isNil(ov)), t), "the method leaves its receiver's representation invariant established", x.Pos())
			}
		}
	}
	for _, r := range results {
		if t, err := fx.typeInvFact(r, &fx.cur); err != nil {
			return err
		} else if t != tTrue {
			fx.oblige("typeinv", "", sImp(sNot(fx.isNil(r)), t), "representation invariant holds for a returned object", x.Pos())
		}
	}
	fx.obls = append(fx.obls, &Obligation{Name: displayKey(fx.key) + fx.nameTag + fmt.Sprintf("/cover#ret%d", fx.retOrdinal(x)), Class: "cover", Fn: fx.key, Goal: sNot(fx.curReach), Upto: fx.c.mark(), Pos: fx.pos(x.Pos()), Text: "return is reachable under the contract's assumptions", fx: fx, Expect: "sat"})
	if fx.errflow {
		fx.errflowAtReturn(results, x)
	}
	cons := []*Contract{}
	if fx.con != nil && !fx.con.IsIface {
		cons = append(cons, fx.con)
	}
	if fx.iface != nil {
		cons = append(cons, fx.iface)
	}
	for _, con := range cons {
		for i, en := range con.Ens {
			if en.Kind == "censures" {
				continue // bookkeeping of the call event: assumed at call sites only
			}
			env := fx.specEnv(&fx.cur, &fx.entry, results)
			var guards []string
			if en.Kind == "lensures" {
				fx.localGuards = &guards
			}
			t, err := env.evalBool(en.Text)
			fx.localGuards = nil
			if err != nil {
				if en.Kind == "lensures" && strings.Contains(err.Error(), "unknown identifier") {
					continue // mentions a local that is not defined on any path to this return
				}
				return fmt.Errorf("%s:%d: %v", en.File, en.Line, err)
			}
			if en.Kind == "lensures" {
				fx.lensEvaluated[fmt.Sprintf("%s:%d", en.File, en.Line)] = true
			}
			for _, g := range dedup(guards) {
				t = sImp(g, t)
			}
			lab := en.Label
			if lab == "" {
				lab = fmt.Sprint(i + 1)
			}
			class := "post"
			if con == fx.iface {
				class = "impl"
				lab = shortName(con.Key) + "." + lab
			}
			if fx.countReturns() > 1 {
				lab += fmt.Sprintf("@ret%d", fx.retOrdinal(x))
			}
			o := fx.oblige(class, lab, t, "postcondition: "+en.Text, x.Pos())
			o.Props = con.Props
		}
		if con == fx.iface {
			continue // the interface-level frame is stated over ghost views; the implementation's own contract carries its frame
		}
		if err := fx.frame(con, x); err != nil {
			return err
		}
	}
	return nil
}

func (fx *FnExec) countReturns() int {
	n := 0
	for _, b := range fx.fn.Blocks {
		if _, ok := b.Instrs[len(b.Instrs)-1].(*ssa.Return); ok {
			n++
		}
	}
	return n
}

func (fx *FnExec) retOrdinal(x *ssa.Return) int {
	n := 0
	for _, b := range fx.fn.Blocks {
		if r, ok := b.Instrs[len(b.Instrs)-1].(*ssa.Return); ok {
			n++
			if r == x {
				return n
			}
		}
	}
	return n
}

// modTargetsByName resolves the function's own modifies clause in the entry state
func (fx *FnExec) modTargetsByName(con *Contract) (map[string][]string, bool, error) {
	if fx.modCache != nil && fx.modCacheCon == con {
		return fx.modCache, fx.modCacheAll, nil
	}
	env := fx.specEnv(&fx.entry, nil, nil)
	byName := map[string][]string{} // heap var -> allowed indices ("" = all)
	all := false
	for _, m := range con.Mod {
		ts, a, err := fx.resolveMod(env, m)
		if err != nil {
			return nil, false, fmt.Errorf("%s:%d: %v", con.File, con.Line, err)
		}
		if a {
			all = true
			break
		}
		for _, t := range ts {
			for _, n := range t.names {
				byName[n] = append(byName[n], t.idx)
			}
		}
	}
	fx.modCache, fx.modCacheAll, fx.modCacheCon = byName, all, con
	return byName, all, nil
}

// frameFact: "heap variable n, in state h, agrees with the entry state outside the modifies set"
// returns "" when the variable may change arbitrarily
func (fx *FnExec) frameFact(n string, h *Heap, byName map[string][]string) string {
	srt := fx.e.heapSort[n]
	curT := fx.heapVar(h, n, srt)
	entT := fx.heapVar(&fx.entry, n, srt)
	if curT == entT {
		return tTrue
	}
	allowed := byName[n]
	for _, a := range allowed {
		if a == "" {
			return ""
		}
	}
	if strings.HasPrefix(srt, "(Array Int ") && !strings.HasPrefix(n, "G.") {
		fx.c.nfresh++
		q := fmt.Sprintf("q!r!%d", fx.c.nfresh)
		conds := []string{}
		// fresh references are invisible to the caller (ghost arrays with an Int index are indexed by references)
		conds = append(conds, sLt(q, fx.allocName))
		for _, a := range allowed {
			conds = append(conds, sNot(sEq(q, a)))
		}
		return fmt.Sprintf("(forall ((%s Int)) (! %s :pattern ((select %s %s))))", q, sImp(sAnd(conds...), sEq(sSel(curT, q), sSel(entT, q))), curT, q)
	}
	return sEq(curT, entT)
}

func (fx *FnExec) frameContract() *Contract {
	if fx.con != nil && !fx.con.IsIface && fx.con.HasMod && !fx.con.ModAll {
		return fx.con
	}
	return nil
}

// frame: every heap variable that differs from the entry state must be covered by the modifies clause
func (fx *FnExec) frame(con *Contract, x *ssa.Return) error {
	if con.ModAll {
		return fx.framePrivate(con, x)
	}
	if len(con.Mod) == 0 && !hasModClause(con) {
		return nil // no modifies clause: callers assume `modifies *`
	}
	lab := ""
	if fx.countReturns() > 1 {
		lab = fmt.Sprintf("@ret%d", fx.retOrdinal(x))
	}
	if fx.cur.epoch != fx.entry.epoch {
		fx.oblige("frame", "whole-heap"+lab, tFalse, "a callee without a frame was called, but the contract has a modifies clause", x.Pos())
		return nil
	}
	byName, all, err := fx.modTargetsByName(con)
	if err != nil {
		return err
	}
	if all {
		return fx.framePrivate(con, x)
	}
	var names []string
	for n := range fx.cur.vers {
		names = append(names, n)
	}
	sort.Strings(names)
	for _, n := range names {
		if n == "$alloc" || n == "$fail" || strings.HasPrefix(n, "L.") || fx.isVolatileGhost(n) {
			continue
		}
		goal := fx.frameFact(n, &fx.cur, byName)
		if goal == "" || goal == tTrue {
			continue
		}
		fx.oblige("frame", n+lab, goal, "only the locations named in `modifies` change: "+n, x.Pos())
	}
	return nil
}

func (fx *FnExec) isVolatileGhost(n string) bool {
	for _, g := range fx.e.cs.Ghosts {
		if g.Volatile && "ghost."+g.Name == n {
			return true
		}
	}
	return false
}

// framePrivate: `modifies *` leaves private ghosts alone unless they are named as well
func (fx *FnExec) framePrivate(con *Contract, x *ssa.Return) error {
	lab := ""
	if fx.countReturns() > 1 {
		lab = fmt.Sprintf("@ret%d", fx.retOrdinal(x))
	}
	byName2 := map[string][]string{}
	env := fx.specEnv(&fx.entry, nil, nil)
	for _, m := range con.Mod {
		if ts, a, err := fx.resolveMod(env, m); err == nil && !a {
			for _, t := range ts {
				for _, n := range t.names {
					byName2[n] = append(byName2[n], t.idx)
				}
			}
		}
	}
	for _, g := range fx.e.cs.Ghosts {
		if !g.Private {
			continue
		}
		n := "ghost." + g.Name
		if _, touched := fx.cur.vers[n]; !touched {
			continue
		}
		goal := fx.frameFact(n, &fx.cur, byName2)
		if goal == "" || goal == tTrue {
			continue
		}
		fx.oblige("frame", n+lab, goal, "a private ghost changes only when the contract names it in `modifies`: "+n, x.Pos())
	}
	return nil
}

// invokedClosureMods: the callee calls the function value bound to parameter pn (possibly many times);
// its effect on memory is the closure's own modifies clause, or everything if it has none.
func (fx *FnExec) invokedClosureMods(env0 *Env, pn string) {
	av, ok := env0.names[pn]
	if !ok || av.Fn == nil {
		fx.havocAll(&fx.cur)
		return
	}
	ck := keyOfFunction(av.Fn.Fn)
	ccon := fx.e.contracts[ck]
	if ccon == nil || !ccon.HasMod || ccon.ModAll {
		fx.uncontracted[ck] = true
		fx.havocAll(&fx.cur)
		return
	}
	fx.usedContracts[ck] = true
	cenv := &Env{fx: fx, names: map[string]Val{}, heap: &fx.cur}
	if av.Fn.Fn.Pkg != nil {
		cenv.pkg = av.Fn.Fn.Pkg.Pkg
	}
	for i, fv := range av.Fn.Fn.FreeVars {
		if i < len(av.Fn.Bindings) {
			cenv.names[fv.Name()] = av.Fn.Bindings[i]
		}
	}
	if ren, _ := renamesFor(ck, av.Fn.Fn); ren != nil {
		// the closure's contract may use the names its captured variables had on the baselined tree
		for old, cur := range ren {
			if v, ok := cenv.names[cur]; ok {
				if _, clash := cenv.names[old]; !clash {
					cenv.names[old] = v
				}
			}
		}
	}
	for _, m := range ccon.Mod {
		ts, all, err := fx.resolveMod(cenv, m)
		if err != nil || all {
			fx.havocAll(&fx.cur)
			return
		}
		for _, t := range ts {
			for _, n := range t.names {
				if t.idx == "" {
					fx.havocVar(&fx.cur, n)
					continue
				}
				srt := fx.e.heapSort[n]
				es := strings.TrimSuffix(strings.TrimPrefix(srt, "(Array Int "), ")")
				hv := fx.heapVar(&fx.cur, n, srt)
				fx.heapSet(&fx.cur, n, srt, sSto(hv, t.idx, fx.c.fresh("mod", es)))
			}
		}
	}
}

// dispatchPure: a call through a closed-world interface whose method has no interface-level contract
// is resolved by case split over the implementations, provided every one of them has a pure contract.
func (fx *FnExec) dispatchPure(cc *ssa.CallCommon, recv *Val, args []Val, resultType types.Type, resT *types.Tuple, pos token.Pos) (Val, bool, error) {
	ids := fx.e.implementors(cc.Value.Type())
	if len(ids) == 0 {
		return Val{}, false, nil
	}
	type alt struct {
		id  int
		con *Contract
		t   types.Type
	}
	var alts []alt
	for _, id := range ids {
		t := fx.e.tt.types[id-1]
		ms := fx.e.prog.MethodSets.MethodSet(t)
		sel := ms.Lookup(cc.Method.Pkg(), cc.Method.Name())
		if sel == nil {
			return Val{}, false, nil
		}
		fn := fx.e.prog.MethodValue(sel)
		if fn == nil {
			return Val{}, false, nil
		}
		// promoted methods: the contract belongs to the declaring type
		var c *Contract
		if fn.Synthetic != "" {
			if obj, ok := sel.Obj().(*types.Func); ok {
				c = fx.e.contracts[funcKeyOf(obj)]
			}
		} else {
			c = fx.e.contracts[keyOfFunction(fn)]
		}
		if c == nil || !c.HasMod || c.ModAll || len(c.Mod) > 0 {
			return Val{}, false, nil
		}
		if fn.Synthetic != "" {
			// receiver of a promoted method is an embedded field: only result facts that do not mention the receiver are usable
			alts = append(alts, alt{id, c, nil})
			continue
		}
		alts = append(alts, alt{id, c, t})
	}
	result := fx.freshVal(resultType, "r."+cc.Method.Name())
	fx.assume(fx.wellTyped(result, &fx.cur))
	fx.assumeResultTypes(result, resT)
	results := splitResults(fx, result, resT)
	for _, a := range alts {
		fx.usedContracts[a.con.Key] = true
		var rv *Val
		if a.t != nil {
			u := fx.unbox(recv.L[1], a.t)
			rv = &u
		}
		env := fx.calleeEnv(a.con, rv, args, &fx.cur, &fx.cur, results)
		guard := sEq(recv.L[0], intLit(int64(a.id)))
		for _, en := range a.con.Ens {
			if en.Kind == "lensures" {
				continue
			}
			t, err := env.evalBool(en.Text)
			if err != nil {
				if a.t == nil {
					continue
				}
				return Val{}, false, fmt.Errorf("%s:%d: %v", en.File, en.Line, err)
			}
			fx.assume(sImp(guard, t))
		}
	}
	// tie the result to the spec-level view of the same call
	if len(args) == 0 && len(result.L) == 1 {
		if t, _, known, err := fx.constMethodTerm(*recv, cc.Method.Name()); err == nil {
			fx.assume(sImp(known, sEq(result.L[0], t)))
		}
	}
	fx.usedContracts["dispatch:"+funcKeyOf(cc.Method)] = true
	return result, true, nil
}
