package main

import (
	"fmt"
	"go/constant"
	"go/token"
	"go/types"
	"os"
	"sort"
	"strings"

	"golang.org/x/tools/go/ssa"
)

// ---------------------------------------------------------------------------
// Running one function: generate all obligations.
// ---------------------------------------------------------------------------

func (fx *FnExec) sigNames() (recvName string, recv *types.Var, params []*types.Var) {
	sig := fx.fn.Signature
	if sig.Recv() != nil {
		recv = sig.Recv()
		recvName = recv.Name()
	}
	for i := 0; i < sig.Params().Len(); i++ {
		params = append(params, sig.Params().At(i))
	}
	return
}

func (fx *FnExec) run() (err error) {
	defer func() {
		if os.Getenv("GOVC_PANIC") != "" {
			return
		}
		if r := recover(); r != nil {
			err = fmt.Errorf("engine panic in %s: %v", fx.key, r)
		}
	}()
	fn := fx.fn
	if len(fn.Blocks) == 0 {
		return fmt.Errorf("%s has no body", fx.key)
	}
	fx.findLoops()
	// collect DebugRef names
	for _, b := range fn.Blocks {
		for _, in := range b.Instrs {
			if d, ok := in.(*ssa.DebugRef); ok && !d.IsAddr {
				if id, ok := d.Expr.(interface{ String() string }); ok {
					_ = id
				}
				if obj := d.Object(); obj != nil {
					fx.names[obj.Name()] = append(fx.names[obj.Name()], d.X)
				}
			}
			// an address-taken local: its name denotes the pointer to its cell (use *local(x) in contracts)
			if a, ok := in.(*ssa.Alloc); ok && a.Comment != "" && a.Comment != "varargs" && a.Comment != "slicelit" && a.Comment != "complit" {
				if _, have := fx.names[a.Comment]; !have {
					fx.names[a.Comment] = append(fx.names[a.Comment], a)
				}
			}
		}
	}
	fx.rename, fx.baseParams = renamesFor(fx.key, fn)
	if traceNames {
		fmt.Fprintf(os.Stderr, "NAMES run %s: rename=%v baseParams=%v\n", fx.key, fx.rename, fx.baseParams)
	}
	for old, cur := range fx.rename {
		if _, have := fx.names[old]; !have {
			fx.names[old] = fx.names[cur]
		}
	}
	fx.cur = fx.entry.clone()
	fx.curReach = tTrue
	// parameters
	for i, p := range fn.Params {
		v := fx.freshVal(p.Type(), "p."+p.Name())
		fx.vals[p] = v
		fx.params[p.Name()] = v
		if i < len(fx.baseParams) && fx.baseParams[i] != p.Name() {
			// the parameter was renamed since the baseline: contracts may still use the old name
			if _, clash := fx.params[fx.baseParams[i]]; !clash {
				fx.params[fx.baseParams[i]] = v
			}
		}
		fx.c.assert(fx.wellTyped(v, &fx.cur))
		if i == 0 && fn.Signature.Recv() != nil && isPointer(p.Type()) && fx.flag("nilrecv") == "" {
			fx.c.assert(sNot(fx.isNil(v)))
		}
	}
	for _, fv := range fn.FreeVars {
		v := fx.freshVal(fv.Type(), "fv."+fv.Name())
		fx.vals[fv] = v
		fx.c.assert(fx.wellTyped(v, &fx.cur))
		if isPointer(fv.Type()) {
			// a captured variable is a cell that exists
			fx.c.assert(sNot(fx.isNil(v)))
		}
	}
	alloc0 := fx.heapVar(&fx.cur, "$alloc", "Int")
	fx.c.assert(app(">", alloc0, "0"))
	fx.allocName = alloc0
	if fx.iface != nil && len(fn.Params) > 0 {
		// self: the receiver boxed as the interface
		rv := fx.vals[fn.Params[0]]
		if fx.implOf != nil && isPointer(fx.implOf) && isPointer(rv.T) && !types.Identical(fx.implOf, rv.T) {
			// promoted method: the receiver is a struct embedded (by value) in the object that implements the interface
			if ost, ok := fx.structOf(elemOf(fx.implOf)); ok {
				for i := 0; i < ost.NumFields(); i++ {
					if ost.Field(i).Embedded() && types.Identical(ost.Field(i).Type(), elemOf(rv.T)) {
						outer := fx.c.fresh("outer", "Int")
						fx.c.assert(sAnd(app(">", outer, "0"), sLt(outer, alloc0)))
						fx.c.assert(sEq(fx.subAddr(outer, elemOf(fx.implOf), i), rv.L[0]))
						ov := Val{T: fx.implOf, L: []string{outer}}
						if t, err := fx.typeInvFact(ov, &fx.cur); err == nil && t != tTrue {
							fx.c.assert(t)
						}
						rv = ov
						fx.outerVal = &ov
					}
				}
			}
		}
		sv := fx.makeInterface(rv, fx.iface.IfaceT)
		fx.selfVal = &sv
	}
	// representation invariant of the receiver and of every object passed in
	for _, prm := range fn.Params {
		if t, err := fx.typeInvFact(fx.vals[prm], &fx.cur); err != nil {
			return err
		} else if t != tTrue {
			fx.c.comment("type invariant of parameter " + prm.Name())
			fx.c.assert(sImp(sNot(fx.isNil(fx.vals[prm])), t))
		}
	}
	// preconditions
	if err := fx.assumeRequires(); err != nil {
		return err
	}
	if err := fx.assumeInterfacePre(); err != nil {
		return err
	}
	if fx.errflow {
		fx.e.heapSort["$fail"] = "Bool"
		fx.cur.vers["$fail"] = tFalse
	}
	if o := fx.coverPre(); o != nil {
		fx.obls = append(fx.obls, o)
	}
	fx.entry = fx.cur.clone()
	for _, b := range fx.order() {
		if err := fx.block(b); err != nil {
			return err
		}
	}
	return nil
}

func (fx *FnExec) flag(name string) string {
	if fx.con == nil {
		return ""
	}
	v, ok := fx.con.Flags[name]
	if ok && v == "" {
		return "yes"
	}
	return v
}

func (fx *FnExec) coverPre() *Obligation {
	// the precondition must be satisfiable: (not false) under the context => expect sat
	return &Obligation{Name: displayKey(fx.key) + fx.nameTag + "/cover#pre", Class: "cover", Fn: fx.key, Goal: tFalse, Upto: fx.c.mark(), Text: "precondition is satisfiable", fx: fx, Expect: "sat"}
}

// specEnv builds the evaluation environment of the function's own contract
func (fx *FnExec) specEnv(heap, old *Heap, results []Val) *Env {
	env := &Env{fx: fx, names: map[string]Val{}, heap: heap, old: old, results: results}
	for k, v := range fx.params {
		env.names[k] = v
	}
	if fx.selfVal != nil {
		env.names["self"] = *fx.selfVal
	}
	for _, fv := range fx.fn.FreeVars {
		if v, ok := fx.vals[fv]; ok {
			env.names[fv.Name()] = v
			for old, cur := range fx.rename {
				if cur == fv.Name() {
					if _, clash := env.names[old]; !clash {
						env.names[old] = v
					}
				}
			}
		}
	}
	if fx.fn.Pkg != nil {
		env.pkg = fx.fn.Pkg.Pkg
	}
	// named results
	if res := fx.fn.Signature.Results(); res != nil && results != nil {
		for i := 0; i < res.Len(); i++ {
			if n := res.At(i).Name(); n != "" && n != "_" && i < len(results) {
				if _, clash := env.names[n]; !clash {
					env.names[n] = results[i]
				}
			}
		}
	}
	// if verifying against an interface contract, bind the interface's parameter names positionally
	if fx.iface != nil {
		names := contractParamNames(fx.iface)
		for i, n := range names {
			if i+1 < len(fx.fn.Params) && n != "" && n != "_" {
				env.names[n] = fx.vals[fx.fn.Params[i+1]]
			}
		}
		for i := 1; i < len(fx.fn.Params); i++ {
			env.names[fmt.Sprintf("arg%d", i-1)] = fx.vals[fx.fn.Params[i]]
		}
		if bs := baseSigFor(fx.iface.Key, fx.iface.Obj); bs != nil && len(fx.iface.Params) == 0 {
			for i := 1; i < len(bs); i++ {
				if i < len(fx.fn.Params) && bs[i] != "" && bs[i] != "_" {
					if _, clash := env.names[bs[i]]; !clash {
						env.names[bs[i]] = fx.vals[fx.fn.Params[i]]
					}
				}
			}
		}
		if fx.iface.Obj != nil && fx.iface.Obj.Pkg() != nil {
			env.pkg = fx.iface.Obj.Pkg()
		}
	}
	env.local = func(name string) (Val, bool) {
		v, ok := fx.localByName(name)
		if ok && os.Getenv("GOVC_TRACE_LOCALS") != "" && name != "rangeindex" {
			fmt.Fprintf(os.Stderr, "LOCAL %s %s\n", displayKey(fx.key), name)
		}
		return v, ok
	}
	return env
}

func contractParamNames(c *Contract) []string {
	if len(c.Params) > 0 {
		return c.Params
	}
	var out []string
	if c.Obj != nil {
		sig := c.Obj.Type().(*types.Signature)
		for i := 0; i < sig.Params().Len(); i++ {
			out = append(out, sig.Params().At(i).Name())
		}
	}
	return out
}

// localByName resolves a source-level local variable at the current point
func (fx *FnExec) localByName(name string) (Val, bool) {
	if name == "rangeindex" && fx.curBlock != nil {
		// the hidden index of the innermost enclosing range loop
		var best *ssa.Phi
		for h, li := range fx.loops {
			if li.blocks[fx.curBlock] || h == fx.curBlock {
				for _, in := range h.Instrs {
					if p, ok := in.(*ssa.Phi); ok && p.Comment == "rangeindex" {
						if best == nil || best.Block().Index < h.Index {
							best = p
						}
					}
				}
			}
		}
		if best != nil {
			if v, ok := fx.vals[best]; ok {
				return v, true
			}
		}
		return Val{}, false
	}
	// phi in the enclosing loop header(s) of the current block
	if fx.curBlock != nil {
		var best *ssa.Phi
		for h, li := range fx.loops {
			if li.blocks[fx.curBlock] || h == fx.curBlock {
				for _, in := range h.Instrs {
					if p, ok := in.(*ssa.Phi); ok && (p.Comment == name || (fx.rename[name] != "" && p.Comment == fx.rename[name])) {
						if best == nil || best.Block().Index < h.Index {
							best = p
						}
					}
				}
			}
		}
		if best != nil {
			if v, ok := fx.vals[best]; ok {
				return v, true
			}
		}
	}
	// unique SSA value known under that name which has been computed
	cands := fx.names[name]
	var found []ssa.Value
	seen := map[ssa.Value]bool{}
	for _, c := range cands {
		if seen[c] {
			continue
		}
		seen[c] = true
		if _, isConst := c.(*ssa.Const); isConst {
			found = append(found, c)
			continue
		}
		if _, ok := fx.vals[c]; ok {
			found = append(found, c)
		}
	}
	if len(found) == 1 {
		if in, ok := found[0].(ssa.Instruction); ok && fx.curBlock != nil {
			if in.Block() != fx.curBlock && !in.Block().Dominates(fx.curBlock) {
				// defined on some paths only: usable under the guard "the defining block was passed" when the
				// caller collects guards (postconditions over locals), otherwise unknown
				if r, done := fx.reach[in.Block()]; done && fx.localGuards != nil {
					*fx.localGuards = append(*fx.localGuards, r)
					return fx.val(found[0]), true
				}
				return Val{}, false
			}
		}
		return fx.val(found[0]), true
	}
	if len(found) > 1 && fx.curBlock != nil {
		// prefer the candidate whose definition dominates the current block and is latest
		var best ssa.Value
		for _, c := range found {
			in, ok := c.(ssa.Instruction)
			if !ok {
				continue
			}
			if in.Block() == fx.curBlock || in.Block().Dominates(fx.curBlock) {
				if best == nil || best.(ssa.Instruction).Block().Dominates(in.Block()) {
					best = c
				}
			}
		}
		if best != nil {
			return fx.val(best), true
		}
	}
	return Val{}, false
}

// localNth: the k-th distinct variable named name (ordered by the position of its first definition); usable when its
// definition dominates the current block, or - where guards are collected - under the guard that it was passed
func (fx *FnExec) localNth(name string, k int) (Val, bool) {
	type cand struct {
		pos token.Pos
		v   ssa.Value
	}
	var cs []cand
	seenObj := map[token.Pos]bool{}
	for _, b := range fx.fn.Blocks {
		for _, in := range b.Instrs {
			if d, ok := in.(*ssa.DebugRef); ok && !d.IsAddr {
				if obj := d.Object(); obj != nil && (obj.Name() == name || (fx.rename[name] != "" && obj.Name() == fx.rename[name])) {
					// the defining occurrence of a variable is the DebugRef at the object's own position
					if d.Pos() == obj.Pos() && !seenObj[obj.Pos()] {
						seenObj[obj.Pos()] = true
						cs = append(cs, cand{obj.Pos(), d.X})
					}
				}
			}
		}
	}
	sort.Slice(cs, func(i, j int) bool { return cs[i].pos < cs[j].pos })
	if k < 1 || k > len(cs) {
		return Val{}, false
	}
	v := cs[k-1].v
	if _, have := fx.vals[v]; !have {
		if _, isConst := v.(*ssa.Const); !isConst {
			return Val{}, false
		}
	}
	if in, ok := v.(ssa.Instruction); ok && fx.curBlock != nil {
		if in.Block() != fx.curBlock && !in.Block().Dominates(fx.curBlock) {
			if r, done := fx.reach[in.Block()]; done && fx.localGuards != nil {
				*fx.localGuards = append(*fx.localGuards, r)
				return fx.val(v), true
			}
			return Val{}, false
		}
	}
	return fx.val(v), true
}

func (fx *FnExec) assumeRequires() error {
	cons := []*Contract{}
	if fx.con != nil {
		cons = append(cons, fx.con)
	}
	if fx.iface != nil {
		cons = append(cons, fx.iface)
	}
	for _, con := range cons {
		for _, r := range con.Req {
			env := fx.specEnv(&fx.cur, nil, nil)
			if con == fx.con && fx.iface != nil {
				// the function's own contract uses its own parameter names
			}
			t, err := env.evalBool(r.Text)
			if err != nil {
				return fmt.Errorf("%s:%d: %v", r.File, r.Line, err)
			}
			fx.c.comment("requires " + r.Text)
			fx.c.assert(t)
		}
	}
	return nil
}

// ---------------------------------------------------------------------------
// blocks
// ---------------------------------------------------------------------------

func (fx *FnExec) block(b *ssa.BasicBlock) error {
	fx.curBlock = b
	li := fx.loops[b]
	edges := fx.inEdges(b, false)
	if b.Index == 0 {
		fx.reach[b] = tTrue
		fx.curReach = tTrue
		fx.cur = fx.entry.clone()
	} else {
		if len(edges) == 0 {
			// unreachable block (e.g. only reachable through unprocessed blocks)
			fx.reach[b] = tFalse
			fx.curReach = tFalse
			fx.cur = fx.entry.clone()
		} else {
			var cs []string
			for _, e := range edges {
				cs = append(cs, e.cond)
			}
			r := fx.c.fresh(fmt.Sprintf("reach.b%d", b.Index), "Bool")
			fx.c.assert(sEq(r, sOr(cs...)))
			fx.reach[b] = r
			fx.curReach = r
			fx.cur = fx.mergeHeaps(edges)
		}
	}
	// phis
	nphi := 0
	for _, in := range b.Instrs {
		p, ok := in.(*ssa.Phi)
		if !ok {
			break
		}
		nphi++
		if li != nil {
			continue // handled below
		}
		fx.vals[p] = fx.mergePhi(p, edges)
	}
	if li != nil {
		if err := fx.loopHeader(b, li, edges); err != nil {
			return err
		}
	}
	fx.heapIn[b] = fx.cur.clone()
	for _, in := range b.Instrs[nphi:] {
		if err := fx.instr(in); err != nil {
			return err
		}
	}
	fx.heapOut[b] = fx.cur
	// back edges leaving this block: invariant preservation
	for si, s := range b.Succs {
		if fx.isBackEdge(b, s) {
			if err := fx.backEdge(b, s, si); err != nil {
				return err
			}
		}
	}
	return nil
}

func (fx *FnExec) mergePhi(p *ssa.Phi, edges []inEdge) Val {
	if len(edges) == 1 {
		return fx.val(p.Edges[edges[0].pidx])
	}
	var vs []Val
	same := true
	for _, e := range edges {
		v := fx.plain(fx.val(p.Edges[e.pidx]))
		vs = append(vs, v)
		if len(vs) > 1 && strings.Join(v.L, ",") != strings.Join(vs[0].L, ",") {
			same = false
		}
	}
	if len(vs) == 0 {
		return fx.freshVal(p.Type(), "phi")
	}
	if same {
		return vs[0]
	}
	for _, v := range vs {
		if v.Loc != nil {
			fx.abstract("phi of address values")
			return fx.freshVal(p.Type(), "phi")
		}
	}
	name := p.Comment
	if name == "" {
		name = p.Name()
	}
	m := fx.freshVal(p.Type(), "phi."+name)
	for i, e := range edges {
		if len(vs[i].L) != len(m.L) {
			continue
		}
		var eqs []string
		for k := range m.L {
			eqs = append(eqs, sEq(m.L[k], vs[i].L[k]))
		}
		fx.c.assert(sImp(e.cond, sAnd(eqs...)))
	}
	return m
}

func (fx *FnExec) loopHeader(b *ssa.BasicBlock, li *loopInfo, edges []inEdge) error {
	// 1. state on entry: phis take their entry-edge values
	var phis []*ssa.Phi
	for _, in := range b.Instrs {
		if p, ok := in.(*ssa.Phi); ok {
			phis = append(phis, p)
		} else {
			break
		}
	}
	for _, p := range phis {
		fx.vals[p] = fx.mergePhi(p, edges)
	}
	invs := fx.loopInvariants(li)
	li.oldHeap = fx.cur.clone()
	// 2. inv-entry
	for _, inv := range invs {
		env := fx.specEnv(&fx.cur, &fx.entry, nil)
		t, err := env.evalBool(inv.Text)
		if err != nil {
			return fmt.Errorf("%s:%d: %v", inv.File, inv.Line, err)
		}
		lab := fmt.Sprintf("loop%d", li.ordinal)
		if inv.Label != "" {
			lab += "." + inv.Label
		} else {
			lab += fmt.Sprintf(".%d", fx.ord(fmt.Sprintf("inv-entry-%d", li.ordinal)))
		}
		o := fx.oblige("inv-entry", lab, t, "loop invariant holds on entry: "+inv.Text, b.Instrs[0].Pos())
		o.Props = fx.con.Props
	}
	// 3. havoc
	li.mods = map[string]bool{}
	li.modAll = false
	var bs []*ssa.BasicBlock
	for x := range li.blocks {
		bs = append(bs, x)
	}
	sort.Slice(bs, func(i, j int) bool { return bs[i].Index < bs[j].Index })
	for _, x := range bs {
		for _, in := range x.Instrs {
			if fx.instrMods(in, li.mods) {
				li.modAll = true
			}
		}
	}
	if li.modAll {
		fx.havocAll(&fx.cur)
		// private ghosts survive `modifies *`; those the loop body names explicitly do change
		for _, n := range sortedKeys(li.mods) {
			if fx.isImmutable(n) {
				fx.havocVar(&fx.cur, n)
			}
			if strings.HasPrefix(n, "ghost.") {
				for _, g := range fx.e.cs.Ghosts {
					if g.Private && "ghost."+g.Name == n {
						fx.havocVar(&fx.cur, n)
					}
				}
			}
		}
	} else {
		var ns []string
		for n := range li.mods {
			ns = append(ns, n)
		}
		sort.Strings(ns)
		oldAlloc := fx.heapVar(&fx.cur, "$alloc", "Int")
		for _, n := range ns {
			fx.havocVar(&fx.cur, n)
		}
		if li.mods["$alloc"] {
			fx.assume(sLe(oldAlloc, fx.heapVar(&fx.cur, "$alloc", "Int")))
		}
	}
	for _, g := range fx.e.cs.Ghosts {
		if g.Volatile {
			fx.e.heapSort["ghost."+g.Name] = g.Sort
			fx.havocVar(&fx.cur, "ghost."+g.Name)
		}
	}
	if fx.errflow {
		// implicit invariant: no failure is pending when an iteration starts (an iteration that sees a
		// failing callee must leave the loop); checked at every back edge
		li.failAtEntry = fx.heapVar(&fx.cur, "$fail", "Bool")
	}
	for _, p := range phis {
		// a phi whose back-edge values are the phi itself does not change in the loop
		invariantPhi := true
		for i, pred := range b.Preds {
			if fx.isBackEdge(pred, b) && p.Edges[i] != ssa.Value(p) {
				invariantPhi = false
			}
		}
		if invariantPhi {
			continue
		}
		name := p.Comment
		if name == "" {
			name = p.Name()
		}
		v := fx.freshVal(p.Type(), "loop."+name)
		fx.vals[p] = v
		fx.assume(fx.wellTyped(v, &fx.cur))
		if p.Comment == "rangeindex" && len(v.L) == 1 {
			// the hidden index of a range loop starts at -1 and only grows
			fx.assume(sAnd(sLe("(- 1)", v.L[0]), sLt(v.L[0], "9223372036854775807")))
			// i < len: the value carried round the back edge is i+1, which passed the test i+1 < len
			for _, in := range b.Instrs {
				if cmp, ok := in.(*ssa.BinOp); ok && cmp.Op == token.LSS {
					if add, ok := cmp.X.(*ssa.BinOp); ok && add.Op == token.ADD && add.X == ssa.Value(p) {
						if lv, ok := fx.vals[cmp.Y]; ok && len(lv.L) == 1 {
							fx.assume(sLt(v.L[0], lv.L[0]))
						}
					}
				}
			}
		}
	}
	// implicit invariant: outside the function's modifies set nothing has changed since entry
	if fc := fx.frameContract(); fc != nil && !li.modAll {
		byName, all, err := fx.modTargetsByName(fc)
		if err != nil {
			return err
		}
		if !all {
			for _, n := range sortedKeys(li.mods) {
				if n == "$alloc" || n == "$fail" || strings.HasPrefix(n, "L.") || fx.isVolatileGhost(n) {
					continue
				}
				if f := fx.frameFact(n, &fx.cur, byName); f != "" {
					fx.assume(f)
				}
			}
		}
	}
	// 4. assume invariants
	for _, inv := range invs {
		env := fx.specEnv(&fx.cur, &fx.entry, nil)
		t, err := env.evalBool(inv.Text)
		if err != nil {
			return fmt.Errorf("%s:%d: %v", inv.File, inv.Line, err)
		}
		fx.c.comment("invariant " + inv.Text)
		fx.assume(t)
	}
	return nil
}

func (fx *FnExec) loopInvariants(li *loopInfo) []Clause {
	if fx.con == nil {
		return nil
	}
	return fx.con.Inv[li.ordinal]
}

func (fx *FnExec) backEdge(from, header *ssa.BasicBlock, succIdx int) error {
	li := fx.loops[header]
	cond := fx.edgeCond(from, header, succIdx)
	// which pred index
	pidx := -1
	for i, p := range header.Preds {
		if p == from {
			pidx = i
		}
	}
	invs := fx.loopInvariants(li)
	fx.obls = append(fx.obls, &Obligation{Name: displayKey(fx.key) + fx.nameTag + fmt.Sprintf("/cover#loop%d.b%d", li.ordinal, latchOrdinal(li, from)), Class: "cover", Fn: fx.key, Goal: sNot(cond), Upto: fx.c.mark(), Text: "loop back edge is reachable under the invariant", fx: fx, Expect: "sat"})
	// bind phis to their back-edge values temporarily
	saved := map[ssa.Value]Val{}
	for _, in := range header.Instrs {
		if p, ok := in.(*ssa.Phi); ok {
			saved[p] = fx.vals[p]
		} else {
			break
		}
	}
	newVals := map[ssa.Value]Val{}
	for p := range saved {
		newVals[p] = fx.val(p.(*ssa.Phi).Edges[pidx])
	}
	for p, v := range newVals {
		fx.vals[p] = v
	}
	savedReach := fx.curReach
	savedBlock := fx.curBlock
	fx.curReach = cond
	fx.curBlock = header
	for k, inv := range invs {
		env := fx.specEnv(&fx.cur, &fx.entry, nil)
		t, err := env.evalBool(inv.Text)
		if err != nil {
			return fmt.Errorf("%s:%d: %v", inv.File, inv.Line, err)
		}
		lab := fmt.Sprintf("loop%d", li.ordinal)
		if inv.Label != "" {
			lab += "." + inv.Label
		} else {
			lab += fmt.Sprintf(".%d", k+1)
		}
		if len(li.latches) > 1 {
			lab += fmt.Sprintf("@b%d", latchOrdinal(li, from))
		}
		o := fx.oblige("inv-preserved", lab, t, "loop invariant is preserved: "+inv.Text, from.Instrs[len(from.Instrs)-1].Pos())
		o.Props = fx.con.Props
	}
	if fx.errflow && li.failAtEntry != "" {
		cur := fx.heapVar(&fx.cur, "$fail", "Bool")
		if cur != li.failAtEntry {
			lab := fmt.Sprintf("loop%d", li.ordinal)
			if len(li.latches) > 1 {
				lab += fmt.Sprintf("@b%d", latchOrdinal(li, from))
			}
			o := fx.oblige("errflow", lab, sEq(cur, li.failAtEntry), "a loop iteration that received an error from a callee does not carry on to the next iteration as if nothing had happened", from.Instrs[len(from.Instrs)-1].Pos())
			o.Props = fx.con.Props
		}
	}
	if fc := fx.frameContract(); fc != nil && !li.modAll {
		byName, all, err := fx.modTargetsByName(fc)
		if err != nil {
			return err
		}
		if !all {
			for _, n := range sortedKeys(li.mods) {
				if n == "$alloc" || n == "$fail" || strings.HasPrefix(n, "L.") || fx.isVolatileGhost(n) {
					continue
				}
				if f := fx.frameFact(n, &fx.cur, byName); f != "" && f != tTrue {
					lab := fmt.Sprintf("loop%d.%s", li.ordinal, n)
					if len(li.latches) > 1 {
						lab += fmt.Sprintf("@b%d", latchOrdinal(li, from))
					}
					fx.oblige("frame", lab, f, "loop body changes only the locations named in `modifies`: "+n, from.Instrs[len(from.Instrs)-1].Pos())
				}
			}
		}
	}
	fx.curReach = savedReach
	fx.curBlock = savedBlock
	for p, v := range saved {
		fx.vals[p] = v
	}
	return nil
}

func latchOrdinal(li *loopInfo, b *ssa.BasicBlock) int {
	var idx []int
	for _, l := range li.latches {
		idx = append(idx, l.Index)
	}
	sort.Ints(idx)
	for i, x := range idx {
		if x == b.Index {
			return i + 1
		}
	}
	return 0
}

// ---------------------------------------------------------------------------
// instructions
// ---------------------------------------------------------------------------

func (fx *FnExec) set(v ssa.Value, r Val) {
	if r.T == nil {
		r.T = v.Type()
	}
	fx.vals[v] = r
}

func (fx *FnExec) instr(in ssa.Instruction) error {
	switch x := in.(type) {
	case *ssa.DebugRef:
		return nil
	case *ssa.Alloc:
		et := elemOf(x.Type())
		if n, ok := byteArrayBuffer(x); ok {
			// make([]byte, <const>) is compiled to new [N]byte + slice: a local byte buffer
			name := "L.buf." + x.Name()
			fx.e.heapSort[name] = "Str"
			fx.localNames[name] = true
			fx.heapSet(&fx.cur, name, "Str", app("str_zeros", intLit(n)))
			fx.bufs[x] = &bufRef{name: name, off: "0", len: intLit(n)}
			return nil
		}
		if arr, ok := arrayLocal(x); ok {
			base := fx.localBase(x)
			for k := int64(0); k < arr.Len(); k++ {
				eb := fmt.Sprintf("%s#%d", base, k)
				for _, l := range fx.e.leaves(arr.Elem()) {
					n := localLeafName(eb, l.Path)
					fx.e.heapSort[n] = l.Sort
					fx.localNames[n] = true
				}
				fx.store(&fx.cur, Val{T: types.NewPointer(arr.Elem()), Loc: &Loc{Kind: LLocal, Local: eb, LocalT: arr.Elem()}}, fx.zeroVal(arr.Elem()))
			}
			fx.set(x, Val{T: x.Type(), Loc: &Loc{Kind: LLocal, Local: base, LocalT: et}})
			return nil
		}
		if nonEscaping(x, 0) {
			base := fx.localBase(x)
			for _, l := range fx.e.leaves(et) {
				n := localLeafName(base, l.Path)
				fx.e.heapSort[n] = l.Sort
				fx.localNames[n] = true
			}
			pv := Val{T: x.Type(), Loc: &Loc{Kind: LLocal, Local: base, LocalT: et}}
			fx.store(&fx.cur, pv, fx.zeroVal(et))
			fx.set(x, pv)
			return nil
		}
		r := fx.alloc(&fx.cur)
		pv := Val{T: x.Type(), L: []string{r}}
		fx.zeroInit = true
		fx.store(&fx.cur, pv, fx.zeroVal(et))
		fx.zeroInit = false
		fx.set(x, pv)
	case *ssa.FieldAddr:
		base := fx.val(x.X)
		owner := elemOf(x.X.Type())
		st, ok := fx.structOf(owner)
		if ok && base.Loc != nil && base.Loc.Kind == LLocal {
			f := st.Field(x.Field)
			fx.set(x, Val{T: x.Type(), Loc: &Loc{Kind: LLocal, Local: localLeafName(base.Loc.Local, f.Name()), LocalT: f.Type()}})
			return nil
		}
		if !ok || base.Loc != nil {
			fx.abstract("field address of non-struct or of address value")
			fx.set(x, fx.freshVal(x.Type(), "fa"))
			return nil
		}
		fx.nilCheck(base, x.Pos(), "field access ."+st.Field(x.Field).Name())
		f := st.Field(x.Field)
		if _, isS := fx.structOf(f.Type()); isS {
			fx.set(x, Val{T: x.Type(), L: []string{fx.subAddr(base.one(), owner, x.Field)}})
		} else {
			fx.set(x, Val{T: x.Type(), Loc: &Loc{Kind: LField, Base: base.one(), Owner: owner, Field: x.Field, ElemT: f.Type()}})
		}
	case *ssa.Field:
		sv := fx.val(x.X)
		st, _ := fx.structOf(x.X.Type())
		off := 0
		for i := 0; i < x.Field; i++ {
			off += fx.e.nleaves(st.Field(i).Type())
		}
		ft := st.Field(x.Field).Type()
		fx.set(x, Val{T: ft, L: sv.L[off : off+fx.e.nleaves(ft)]})
	case *ssa.UnOp:
		return fx.unop(x)
	case *ssa.BinOp:
		return fx.binop(x)
	case *ssa.Store:
		p := fx.val(x.Addr)
		if p.Loc == nil {
			fx.nilCheck(p, x.Pos(), "store through pointer")
		}
		sv := fx.plain(fx.val(x.Val))
		if p.Loc == nil || p.Loc.Kind != LLocal {
			if t, err := fx.typeInvFact(sv, &fx.cur); err != nil {
				return err
			} else if t != tTrue {
				fx.oblige("typeinv", "", sImp(sNot(fx.isNil(sv)), t), "representation invariant holds when a pointer to the object is stored in the heap", x.Pos())
			}
		}
		fx.store(&fx.cur, p, sv)
	case *ssa.Phi:
		return fmt.Errorf("phi not at block start")
	case *ssa.Call:
		r, err := fx.call(x, x.Common(), x.Pos())
		if err != nil {
			return err
		}
		fx.set(x, r)
		// ret(Name, n): the result of the n-th call (in block order) of a function or method of that name
		cn := ""
		if cc := x.Common(); cc.IsInvoke() {
			cn = cc.Method.Name()
		} else if sc := cc.StaticCallee(); sc != nil {
			cn = sc.Name()
			if i := strings.Index(cn, "["); i > 0 {
				cn = cn[:i]
			}
		}
		if cn != "" {
			fx.callRets[fmt.Sprintf("%s@%d", cn, fx.ord("ret:"+cn))] = x
		}
	case *ssa.Go:
		// the spawned call is modelled as a call made at the spawn point: its contract's effects (in particular the
		// ghost log of who was invoked) apply once; what the goroutine does later, interleaved with the spawner, is
		// not modelled (no shared-memory reasoning is claimed anywhere on top of this)
		fx.notes = append(fx.notes, "go statement modelled as a call at the spawn point (interleaving not modelled)")
		if _, err := fx.call(x, x.Common(), x.Pos()); err != nil {
			return err
		}
	case *ssa.Defer:
		fx.defers = append(fx.defers, x)
	case *ssa.RunDefers:
		for i := len(fx.defers) - 1; i >= 0; i-- {
			d := fx.defers[i]
			if d.Block() != fx.fn.Blocks[0] && !d.Block().Dominates(fx.curBlock) {
				if !fx.reaches(d.Block(), fx.curBlock) {
					continue // this defer statement cannot have run on any path to here
				}
				fx.abstract("conditional defer")
				fx.havocAll(&fx.cur)
				continue
			}
			if _, err := fx.call(d, d.Common(), d.Pos()); err != nil {
				return err
			}
		}
	case *ssa.MakeInterface:
		pv := fx.plain(fx.val(x.X))
		if t, err := fx.typeInvFact(pv, &fx.cur); err != nil {
			return err
		} else if t != tTrue {
			fx.oblige("typeinv", "", sImp(sNot(fx.isNil(pv)), t), "representation invariant holds when the value is published as an interface", x.Pos())
		}
		if fx.e.closedWorld(x.Type()) && pv.T != nil && isPointer(pv.T) && pv.Loc == nil {
			fx.oblige("boxnil", "", sNot(sEq(pv.L[0], "0")), "a nil pointer is never stored in an AST interface value", x.Pos())
		}
		fx.set(x, fx.makeInterface(pv, x.Type()))
	case *ssa.ChangeInterface:
		v := fx.val(x.X)
		if len(v.L) != 2 {
			fx.set(x, fx.makeInterface(fx.plain(v), x.Type()))
		} else {
			fx.set(x, Val{T: x.Type(), L: v.L})
		}
	case *ssa.ChangeType:
		v := fx.val(x.X)
		fx.set(x, Val{T: x.Type(), L: v.L, Fn: v.Fn})
	case *ssa.Convert:
		return fx.convert(x)
	case *ssa.TypeAssert:
		return fx.typeAssert(x)
	case *ssa.Extract:
		tv := fx.val(x.Tuple)
		tup := x.Tuple.Type().(*types.Tuple)
		off := 0
		for i := 0; i < x.Index; i++ {
			off += fx.e.nleaves(tup.At(i).Type())
		}
		n := fx.e.nleaves(tup.At(x.Index).Type())
		if off+n > len(tv.L) {
			fx.set(x, fx.freshVal(x.Type(), "ext"))
			return nil
		}
		fx.set(x, Val{T: x.Type(), L: tv.L[off : off+n]})
	case *ssa.IndexAddr:
		if m, ok := fx.mslices[x.X]; ok {
			iv := fx.val(x.Index)
			fx.oblige("idx", "", sAnd(sLe("0", iv.one()), sLt(iv.one(), m.len)), "index in range", x.Pos())
			fx.set(x, Val{T: x.Type(), Loc: &Loc{Kind: LMutElem, Ms: m, Idx: iv.one(), ElemT: m.et}})
			return nil
		}
		if b, ok := fx.bufs[x.X]; ok {
			iv := fx.val(x.Index)
			fx.oblige("idx", "", sAnd(sLe("0", iv.one()), sLt(iv.one(), b.len)), "index in range", x.Pos())
			fx.set(x, Val{T: x.Type(), Loc: &Loc{Kind: LBufElem, Buf: b, Idx: iv.one(), ElemT: elemOf(x.X.Type())}})
			return nil
		}
		sv := fx.val(x.X)
		iv := fx.val(x.Index)
		if isSlice(x.X.Type()) {
			fx.oblige("idx", "", sAnd(sLe("0", iv.one()), sLt(iv.one(), sv.L[1])), "index in range", x.Pos())
			if et := elemOf(x.X.Type()); et != nil && (typeKey(et) == "byte" || typeKey(et) == "uint8") && len(sv.L) >= 3 {
				// b[i] is the i-th byte of the string the slice denotes
				fx.assume(sEq(app("str_at", app("bytes_str", sv.L[2], sv.L[1]), iv.one()), sSel(sv.L[2], iv.one())))
			}
			svc := sv
			fx.set(x, Val{T: x.Type(), Loc: &Loc{Kind: LElem, Slice: &svc, SliceV: x.X, Idx: iv.one(), ElemT: elemOf(x.X.Type())}})
		} else if sv.Loc != nil && sv.Loc.Kind == LLocal {
			// element of a local array
			if c, ok := x.Index.(*ssa.Const); ok {
				k, _ := constant.Int64Val(c.Value)
				fx.set(x, Val{T: x.Type(), Loc: &Loc{Kind: LLocal, Local: fmt.Sprintf("%s#%d", sv.Loc.Local, k), LocalT: elemOf(x.Type())}})
				return nil
			}
			fx.abstract("variable index into a local array")
			r := fx.alloc(&fx.cur)
			fx.set(x, Val{T: x.Type(), L: []string{r}})
		} else {
			if a, ok := x.X.(*ssa.Alloc); !ok || a.Comment != "varargs" {
				fx.abstract("index address of array pointer")
			}
			r := fx.alloc(&fx.cur)
			fx.set(x, Val{T: x.Type(), L: []string{r}})
		}
	case *ssa.Index:
		sv := fx.val(x.X)
		iv := fx.val(x.Index)
		if isString(x.X.Type()) {
			fx.oblige("idx", "", sAnd(sLe("0", iv.one()), sLt(iv.one(), app("str_len", sv.one()))), "string index in range", x.Pos())
			r := app("str_at", sv.one(), iv.one())
			fx.assume(sAnd(sLe("0", r), sLe(r, "255")))
			fx.set(x, Val{T: x.Type(), L: []string{r}})
		} else {
			out := Val{T: x.Type()}
			for _, a := range sv.L {
				out.L = append(out.L, sSel(a, iv.one()))
			}
			fx.set(x, out)
		}
	case *ssa.Lookup:
		return fx.lookup(x)
	case *ssa.MakeSlice:
		if mutSliceCandidate(x) {
			n := fx.val(x.Len).one()
			fx.oblige("makeslice", "", fx.makeSliceOk(x, n), "make: 0 <= len <= cap", x.Pos())
			m := &mslice{name: x.Name(), len: n, et: elemOf(x.Type())}
			for _, l := range fx.e.leaves(m.et) {
				nm := fx.msliceLeafName(m, l.Path)
				srt := arraySort("Int", l.Sort)
				fx.e.heapSort[nm] = srt
				fx.localNames[nm] = true
				fx.heapSet(&fx.cur, nm, srt, zeroOfSort(srt))
			}
			fx.mslices[x] = m
			fx.vals[x] = Val{T: x.Type(), L: []string{tFalse, n, "0"}} // placeholder: val() materializes
			return nil
		}
		if isByteSlice(x.Type()) {
			n := fx.val(x.Len).one()
			fx.oblige("makeslice", "", fx.makeSliceOk(x, n), "make: 0 <= len <= cap", x.Pos())
			name := "L.buf." + x.Name()
			fx.e.heapSort[name] = "Str"
			fx.localNames[name] = true
			fx.heapSet(&fx.cur, name, "Str", app("str_zeros", n))
			fx.bufs[x] = &bufRef{name: name, off: "0", len: n}
			return nil
		}
		n := fx.val(x.Len).one()
		et := elemOf(x.Type())
		out := Val{T: x.Type(), L: []string{tFalse, n}}
		for _, l := range fx.e.leaves(et) {
			out.L = append(out.L, zeroOfSort(arraySort("Int", l.Sort)))
		}
		fx.oblige("makeslice", "", fx.makeSliceOk(x, n), "make: 0 <= len <= cap", x.Pos())
		fx.set(x, out)
	case *ssa.MakeMap:
		r := fx.alloc(&fx.cur)
		names := fx.mapHeapNames(x.Type())
		if len(names) > 0 {
			m := under(x.Type()).(*types.Map)
			ks := fx.mapKeySort(m.Key())
			dom := fx.heapVar(&fx.cur, names[0], "")
			fx.heapSet(&fx.cur, names[0], "", sSto(dom, r, fmt.Sprintf("((as const %s) false)", arraySort(ks, "Bool"))))
			ln := names[len(names)-1]
			lv := fx.heapVar(&fx.cur, ln, "")
			fx.heapSet(&fx.cur, ln, "", sSto(lv, r, "0"))
		}
		fx.set(x, Val{T: x.Type(), L: []string{r}})
	case *ssa.MapUpdate:
		fx.mapUpdate(x)
	case *ssa.MakeClosure:
		f := x.Fn.(*ssa.Function)
		var bs []Val
		for _, b := range x.Bindings {
			bs = append(bs, fx.val(b))
		}
		// a method value: binding a nil pointer receiver does not panic by itself, but calling the value does as soon as the
		// method touches its receiver; unless the method is declared nil-tolerant (`nilrecv`) the binding is the place to object
		if strings.HasPrefix(f.Synthetic, "bound method wrapper") && len(bs) == 1 && isPointer(x.Bindings[0].Type()) && f.Object() != nil {
			tolerant := false
			if mc := fx.e.contracts[funcKeyOf(f.Object().(*types.Func))]; mc != nil {
				_, tolerant = mc.Flags["nilrecv"]
			}
			if !tolerant {
				fx.oblige("nil", "", sNot(fx.isNil(bs[0])), "nil dereference: method value "+f.Object().Name()+" bound to a nil receiver", x.Pos())
			}
		}
		h := fx.c.fresh("closure", "Int")
		fx.c.assert(app(">", h, "0"))
		fx.set(x, Val{T: x.Type(), L: []string{h}, Fn: &FnVal{Fn: f, Bindings: bs}})
	case *ssa.Slice:
		return fx.sliceOp(x)
	case *ssa.Range:
		fx.set(x, Val{T: x.Type(), L: []string{"0"}})
		fx.vals[x] = Val{T: x.X.Type(), L: fx.val(x.X).L}
		if n, srt, ok := fx.iterSeenName(x); ok {
			// ghost: the set of keys the iteration has produced so far
			fx.e.heapSort[n] = srt
			fx.localNames[n] = true
			fx.heapSet(&fx.cur, n, srt, fmt.Sprintf("((as const %s) false)", srt))
		}
	case *ssa.Next:
		return fx.next(x)
	case *ssa.If, *ssa.Jump:
		return nil
	case *ssa.Return:
		return fx.ret(x)
	case *ssa.Panic:
		o := fx.oblige("unreachable", "", tFalse, "panic is unreachable", x.Pos())
		_ = o
	case *ssa.Send, *ssa.Select, *ssa.MakeChan:
		fx.abstract(fmt.Sprintf("channel operation %T", in))
		if v, ok := in.(ssa.Value); ok {
			fx.set(v, fx.freshVal(v.Type(), "chan"))
		}
	default:
		fx.abstract(fmt.Sprintf("unsupported instruction %T", in))
		if v, ok := in.(ssa.Value); ok {
			fx.set(v, fx.freshVal(v.Type(), "unsup"))
		}
		fx.havocAll(&fx.cur)
	}
	return nil
}

func (fx *FnExec) nilCheck(v Val, p token.Pos, what string) {
	if v.Loc != nil {
		return
	}
	if len(v.L) == 0 {
		return
	}
	fx.oblige("nil", "", sNot(fx.isNil(v)), "nil dereference: "+what, p)
}

func (fx *FnExec) makeInterface(v Val, it types.Type) Val {
	t := v.T
	if t == nil {
		return Val{T: it, L: []string{"0", "0"}}
	}
	if isInterface(t) {
		return Val{T: it, L: v.L}
	}
	id := fx.e.tt.id(t)
	if isPointer(t) && v.Loc == nil || isTypeParam(t) {
		return Val{T: it, L: []string{intLit(int64(id)), v.L[0]}}
	}
	if _, ok := under(t).(*types.Map); ok {
		return Val{T: it, L: []string{intLit(int64(id)), v.L[0]}}
	}
	if v.Loc != nil {
		fx.abstract("address value boxed in interface")
		return fx.freshVal(it, "box")
	}
	// boxed value: payload is an opaque handle with unbox functions
	key := strings.Join(v.L, "\x00") + "|" + typeKey(t)
	_ = key
	ls := fx.e.leaves(t)
	var args, sorts []string
	for i, l := range ls {
		args = append(args, v.L[i])
		sorts = append(sorts, l.Sort)
	}
	bf := smtName("box." + typeKey(t))
	fx.c.declareFun(bf, sorts, "Int")
	h := app(bf, args...)
	if len(args) == 0 {
		h = bf
	}
	for i, l := range ls {
		uf := smtName(fmt.Sprintf("unbox.%s.%d", typeKey(t), i))
		fx.c.declareFun(uf, []string{"Int"}, l.Sort)
		fx.c.assert(sEq(app(uf, h), v.L[i]))
	}
	fx.c.assert(app(">", h, "0")) // a boxed value is a real object
	return Val{T: it, L: []string{intLit(int64(id)), h}}
}

func (fx *FnExec) unbox(payload string, t types.Type) Val {
	out := Val{T: t}
	if isPointer(t) || isTypeParam(t) {
		out.L = []string{payload}
		return out
	}
	if _, ok := under(t).(*types.Map); ok {
		out.L = []string{payload}
		return out
	}
	for i, l := range fx.e.leaves(t) {
		uf := smtName(fmt.Sprintf("unbox.%s.%d", typeKey(t), i))
		isNew := !fx.c.declared[uf]
		fx.c.declareFun(uf, []string{"Int"}, l.Sort)
		if isNew && l.Sort == "Int" && l.T != nil {
			// the payload of a boxed integer is a value of its type
			if rf := rangeFact(app(uf, "p!u"), l.T); rf != tTrue {
				fx.c.assert(fmt.Sprintf("(forall ((p!u Int)) (! %s :pattern (%s)))", rf, app(uf, "p!u")))
			}
		}
		out.L = append(out.L, app(uf, payload))
	}
	return out
}

func (fx *FnExec) typeAssert(x *ssa.TypeAssert) error {
	v := fx.val(x.X)
	at := x.AssertedType
	var cond string
	var res Val
	if isInterface(at) {
		if fx.e.closedWorld(at) {
			ids := fx.e.implementors(at)
			var alts []string
			for _, id := range ids {
				alts = append(alts, sEq(v.L[0], intLit(int64(id))))
			}
			cond = sOr(alts...)
		} else {
			iface := under(at).(*types.Interface)
			if iface.NumMethods() == 0 {
				cond = sNot(sEq(v.L[0], "0"))
			} else {
				// open world for foreign interfaces: known implementors certainly satisfy it, others unknown
				ids := fx.e.implementors(at)
				unk := fx.c.fresh("implements", "Bool")
				var alts []string
				for _, id := range ids {
					alts = append(alts, sEq(v.L[0], intLit(int64(id))))
				}
				known := sOr(alts...)
				var notKnown []string
				for _, id := range fx.e.tt.sortedIds() {
					notKnown = append(notKnown, sEq(v.L[0], intLit(int64(id))))
				}
				// if the dynamic type is one of the closed-world types, the answer is exact
				cond = sIte(sOr(notKnown...), known, sAnd(unk, sNot(sEq(v.L[0], "0"))))
			}
		}
		res = Val{T: at, L: []string{v.L[0], v.L[1]}}
	} else {
		id := fx.e.tt.id(at)
		cond = sEq(v.L[0], intLit(int64(id)))
		res = fx.unbox(v.L[1], at)
	}
	if x.CommaOk {
		z := fx.zeroVal(at)
		out := Val{T: x.Type()}
		for i := range res.L {
			out.L = append(out.L, sIte(cond, res.L[i], z.L[i]))
		}
		out.L = append(out.L, cond)
		fx.set(x, out)
		fx.assumeTypeInvOf(res, cond)
		return nil
	}
	fx.oblige("assert", "", cond, fmt.Sprintf("type assertion to %s succeeds", types.TypeString(at, func(p *types.Package) string { return p.Name() })), x.Pos())
	fx.set(x, res)
	fx.assumeTypeInvOf(res, cond)
	return nil
}

func (fx *FnExec) unop(x *ssa.UnOp) error {
	v := fx.val(x.X)
	switch x.Op {
	case token.MUL:
		if v.Loc == nil {
			fx.nilCheck(v, x.Pos(), "pointer dereference")
		}
		r := fx.load(&fx.cur, v)
		r.T = x.Type()
		fx.assume(fx.wellTyped(r, &fx.cur))
		if v.Loc == nil || v.Loc.Kind != LLocal {
			// objects reachable from the heap satisfy their representation invariant
			fx.assumeTypeInvOf(r, tTrue)
		}
		fx.set(x, r)
	case token.NOT:
		fx.set(x, Val{T: x.Type(), L: []string{sNot(v.one())}})
	case token.SUB:
		if isFloat(x.Type()) {
			fx.set(x, Val{T: x.Type(), L: []string{app("-", v.one())}})
		} else {
			fx.set(x, Val{T: x.Type(), L: []string{wrapOnce(app("-", v.one()), x.Type())}})
		}
	case token.XOR:
		fx.c.declareFun("bit_not", []string{"Int"}, "Int")
		fx.set(x, Val{T: x.Type(), L: []string{app("bit_not", v.one())}})
	case token.ARROW:
		fx.abstract("channel receive")
		fx.set(x, fx.freshVal(x.Type(), "recv"))
	default:
		fx.abstract("unary " + x.Op.String())
		fx.set(x, fx.freshVal(x.Type(), "unop"))
	}
	return nil
}

func (fx *FnExec) binop(x *ssa.BinOp) error {
	a, b := fx.val(x.X), fx.val(x.Y)
	t := x.X.Type()
	bt := x.Type()
	switch x.Op {
	case token.EQL, token.NEQ:
		eq := fx.valuesEqual(a, b, t)
		if x.Op == token.NEQ {
			eq = sNot(eq)
		}
		fx.set(x, Val{T: bt, L: []string{eq}})
		return nil
	}
	if isString(t) {
		switch x.Op {
		case token.ADD:
			r := app("str_concat", a.one(), b.one())
			fx.c.assert(sEq(app("str_len", r), sAdd(app("str_len", a.one()), app("str_len", b.one()))))
			fx.set(x, Val{T: bt, L: []string{r}})
		case token.LSS:
			fx.c.usesStrOrd = true
			fx.set(x, Val{T: bt, L: []string{app("str_lt", a.one(), b.one())}})
		case token.GTR:
			fx.c.usesStrOrd = true
			fx.set(x, Val{T: bt, L: []string{app("str_lt", b.one(), a.one())}})
		case token.LEQ:
			fx.c.usesStrOrd = true
			fx.set(x, Val{T: bt, L: []string{sNot(app("str_lt", b.one(), a.one()))}})
		case token.GEQ:
			fx.c.usesStrOrd = true
			fx.set(x, Val{T: bt, L: []string{sNot(app("str_lt", a.one(), b.one()))}})
		default:
			fx.set(x, fx.freshVal(bt, "strop"))
		}
		return nil
	}
	if isFloat(t) {
		op := ""
		switch x.Op {
		case token.ADD:
			op = "+"
		case token.SUB:
			op = "-"
		case token.MUL:
			op = "*"
		case token.QUO:
			op = "/"
		case token.LSS:
			op = "<"
		case token.LEQ:
			op = "<="
		case token.GTR:
			op = ">"
		case token.GEQ:
			op = ">="
		}
		if op == "" {
			fx.set(x, fx.freshVal(bt, "fop"))
			return nil
		}
		fx.set(x, Val{T: bt, L: []string{app(op, a.one(), b.one())}})
		return nil
	}
	if isBool(t) {
		switch x.Op {
		case token.AND, token.LAND:
			fx.set(x, Val{T: bt, L: []string{sAnd(a.one(), b.one())}})
		case token.OR, token.LOR:
			fx.set(x, Val{T: bt, L: []string{sOr(a.one(), b.one())}})
		default:
			fx.set(x, fx.freshVal(bt, "bop"))
		}
		return nil
	}
	// integers (and type parameters treated as ints)
	x1, y1 := a.one(), b.one()
	switch x.Op {
	case token.ADD:
		fx.set(x, Val{T: bt, L: []string{wrapOnce(sAdd(x1, y1), bt)}})
	case token.SUB:
		fx.set(x, Val{T: bt, L: []string{wrapOnce(sSub(x1, y1), bt)}})
	case token.MUL:
		fx.set(x, Val{T: bt, L: []string{wrapMod(app("*", x1, y1), bt)}})
	case token.QUO, token.REM:
		fx.oblige("div", "", sNot(sEq(y1, "0")), "division by zero", x.Pos())
		// Go truncates toward zero
		q := sIte(app(">=", x1, "0"),
			sIte(app(">", y1, "0"), app("div", x1, y1), app("-", app("div", x1, app("-", y1)))),
			sIte(app(">", y1, "0"), app("-", app("div", app("-", x1), y1)), app("div", app("-", x1), app("-", y1))))
		if x.Op == token.QUO {
			fx.set(x, Val{T: bt, L: []string{wrapOnce(q, bt)}})
		} else {
			fx.set(x, Val{T: bt, L: []string{sSub(x1, app("*", q, y1))}})
		}
	case token.LSS:
		fx.set(x, Val{T: bt, L: []string{sLt(x1, y1)}})
	case token.LEQ:
		fx.set(x, Val{T: bt, L: []string{sLe(x1, y1)}})
	case token.GTR:
		fx.set(x, Val{T: bt, L: []string{sLt(y1, x1)}})
	case token.GEQ:
		fx.set(x, Val{T: bt, L: []string{sLe(y1, x1)}})
	default:
		// bit operations: uninterpreted, but typed
		fn := smtName("bit" + x.Op.String())
		fx.c.declareFun(fn, []string{"Int", "Int"}, "Int")
		r := app(fn, x1, y1)
		fx.assume(rangeFact(r, bt))
		fx.set(x, Val{T: bt, L: []string{r}})
	}
	return nil
}

// valuesEqual implements Go's == on two values of static type t
func (fx *FnExec) valuesEqual(a, b Val, t types.Type) string {
	if a.Loc != nil || b.Loc != nil {
		if a.Loc != nil && b.Loc == nil {
			return sNot(sEq(b.L[0], b.L[0])) // address of field is never nil
		}
		if b.Loc != nil && a.Loc == nil {
			return tFalse
		}
		return fx.c.fresh("addr_eq", "Bool")
	}
	if isSlice(t) {
		// only comparison with nil is legal
		if isConstNil(a, fx) {
			return b.L[0]
		}
		return a.L[0]
	}
	if isInterface(t) && len(a.L) == 2 && len(b.L) == 2 {
		// identical dynamic type and payload
		return sAnd(sEq(a.L[0], b.L[0]), sEq(a.L[1], b.L[1]))
	}
	if len(a.L) != len(b.L) {
		return fx.c.fresh("eq", "Bool")
	}
	var parts []string
	for i := range a.L {
		parts = append(parts, sEq(a.L[i], b.L[i]))
	}
	return sAnd(parts...)
}

func isConstNil(v Val, fx *FnExec) bool {
	return len(v.L) > 0 && v.L[0] == tTrue
}

func (fx *FnExec) convert(x *ssa.Convert) error {
	v := fx.val(x.X)
	from, to := x.X.Type(), x.Type()
	switch {
	case isInteger(from) && isInteger(to):
		flo, fhi, ok1 := intRange(from)
		tlo, thi, ok2 := intRange(to)
		if ok1 && ok2 && flo.Cmp(tlo) >= 0 && fhi.Cmp(thi) <= 0 {
			fx.set(x, Val{T: to, L: v.L})
		} else {
			fx.set(x, Val{T: to, L: []string{wrapMod(v.one(), to)}})
		}
	case isInteger(from) && isFloat(to):
		fx.set(x, Val{T: to, L: []string{app("to_real", v.one())}})
	case isFloat(from) && isInteger(to):
		r := fx.c.fresh("f2i", "Int")
		fx.assume(rangeFact(r, to))
		fx.set(x, Val{T: to, L: []string{r}})
	case isFloat(from) && isFloat(to):
		fx.set(x, Val{T: to, L: v.L})
	case isSlice(from) && isString(to):
		// string([]byte)
		fx.set(x, Val{T: to, L: []string{app("bytes_str", v.L[2], v.L[1])}})
	case isString(from) && isSlice(to):
		s := v.one()
		arr := app("str_bytes", s)
		fx.c.assert(sEq(app("bytes_str", arr, app("str_len", s)), s))
		fx.set(x, Val{T: to, L: []string{tFalse, app("str_len", s), arr}})
	case isInteger(from) && isString(to):
		fx.c.declareFun("rune_str", []string{"Int"}, "Str")
		fx.set(x, Val{T: to, L: []string{app("rune_str", v.one())}})
	default:
		if len(fx.e.leaves(from)) == len(fx.e.leaves(to)) {
			fx.set(x, Val{T: to, L: v.L})
		} else {
			fx.abstract(fmt.Sprintf("conversion %v -> %v", from, to))
			fx.set(x, fx.freshVal(to, "conv"))
		}
	}
	return nil
}

func (fx *FnExec) lookup(x *ssa.Lookup) error {
	mv := fx.val(x.X)
	kv := fx.val(x.Index)
	if isString(x.X.Type()) {
		fx.set(x, Val{T: x.Type(), L: []string{app("str_at", mv.one(), kv.one())}})
		return nil
	}
	m, ok := under(x.X.Type()).(*types.Map)
	if !ok {
		fx.set(x, fx.freshVal(x.Type(), "lookup"))
		return nil
	}
	names := fx.mapHeapNames(x.X.Type())
	k := fx.mapKeyTerm(m.Key(), kv)
	dom := fx.heapVar(&fx.cur, names[0], "")
	present := sSel(sSel(dom, mv.one()), k)
	z := fx.zeroVal(m.Elem())
	out := Val{}
	for j := range fx.e.leaves(m.Elem()) {
		hv := fx.heapVar(&fx.cur, names[1+j], "")
		out.L = append(out.L, sIte(present, sSel(sSel(hv, mv.one()), k), z.L[j]))
	}
	ev := Val{T: m.Elem(), L: out.L}
	fx.assume(sImp(present, fx.wellTyped(ev, &fx.cur)))
	if x.CommaOk {
		out.L = append(out.L, present)
	}
	out.T = x.Type()
	fx.set(x, out)
	return nil
}

func (fx *FnExec) mapUpdate(x *ssa.MapUpdate) {
	mv := fx.val(x.Map)
	kv := fx.val(x.Key)
	vv := fx.val(x.Value)
	m, ok := under(x.Map.Type()).(*types.Map)
	if !ok {
		fx.abstract("map update on non-map")
		return
	}
	fx.nilCheck(mv, x.Pos(), "assignment to entry in nil map")
	names := fx.mapHeapNames(x.Map.Type())
	k := fx.mapKeyTerm(m.Key(), kv)
	dom := fx.heapVar(&fx.cur, names[0], "")
	fx.heapSet(&fx.cur, names[0], "", sSto(dom, mv.one(), sSto(sSel(dom, mv.one()), k, tTrue)))
	for j := range fx.e.leaves(m.Elem()) {
		hv := fx.heapVar(&fx.cur, names[1+j], "")
		fx.heapSet(&fx.cur, names[1+j], "", sSto(hv, mv.one(), sSto(sSel(hv, mv.one()), k, vv.L[j])))
	}
	ln := names[len(names)-1]
	lv := fx.heapVar(&fx.cur, ln, "")
	nl := fx.c.fresh("maplen", "Int")
	old := sSel(lv, mv.one())
	fx.assume(sAnd(sLe(old, nl), sLe(nl, sAdd(old, "1")), sLe("1", nl)))
	fx.heapSet(&fx.cur, ln, "", sSto(lv, mv.one(), nl))
}

func (fx *FnExec) sliceOp(x *ssa.Slice) error {
	if b, ok := fx.bufs[x.X]; ok {
		lo, hi := "0", b.len
		if x.Low != nil {
			lo = fx.val(x.Low).one()
		}
		if x.High != nil {
			hi = fx.val(x.High).one()
		}
		fx.oblige("idx", "", sAnd(sLe("0", lo), sLe(lo, hi), sLe(hi, b.len)), "slice bounds (checked against len; cap is not modelled)", x.Pos())
		fx.bufs[x] = &bufRef{name: b.name, off: sAdd(b.off, lo), len: sSub(hi, lo)}
		return nil
	}
	v := fx.val(x.X)
	lo, hi := "0", ""
	if x.Low != nil {
		lo = fx.val(x.Low).one()
	}
	if x.High != nil {
		hi = fx.val(x.High).one()
	}
	switch {
	case isString(x.X.Type()):
		s := v.one()
		if hi == "" {
			hi = app("str_len", s)
		}
		fx.oblige("idx", "", sAnd(sLe("0", lo), sLe(lo, hi), sLe(hi, app("str_len", s))), "string slice bounds", x.Pos())
		r := app("str_sub", s, lo, hi)
		fx.assume(sEq(app("str_len", r), sSub(hi, lo)))
		fx.set(x, Val{T: x.Type(), L: []string{r}})
	case isSlice(x.X.Type()):
		if hi == "" {
			hi = v.L[1]
		}
		// bounds are checked against the length; capacity is not modelled (a re-slice beyond len is reported as a failure)
		fx.oblige("idx", "", sAnd(sLe("0", lo), sLe(lo, hi), sLe(hi, v.L[1])), "slice bounds (checked against len; cap is not modelled)", x.Pos())
		out := Val{T: x.Type(), L: []string{sAnd(v.L[0], sEq(hi, lo)), sSub(hi, lo)}}
		if lo == "0" {
			out.L[0] = v.L[0]
			out.L = append(out.L, v.L[2:]...)
			if et := elemOf(x.X.Type()); x.High != nil && (typeKey(et) == "byte" || typeKey(et) == "uint8") {
				fx.assume(sEq(app("bytes_str", out.L[2], out.L[1]), app("str_sub", app("bytes_str", v.L[2], v.L[1]), "0", hi)))
			}
		} else {
			et := elemOf(x.X.Type())
			for i, l := range fx.e.leaves(et) {
				na := fx.c.fresh("slice", arraySort("Int", l.Sort))
				fx.c.nfresh++
				q := fmt.Sprintf("q!i!%d", fx.c.nfresh)
				fx.assume(fmt.Sprintf("(forall ((%s Int)) (! (= (select %s %s) (select %s (+ %s %s))) :pattern ((select %s %s))))", q, na, q, v.L[2+i], q, lo, na, q))
				out.L = append(out.L, na)
			}
			if typeKey(et) == "byte" || typeKey(et) == "uint8" {
				// the bytes of b[lo:hi] are the corresponding substring
				fx.assume(sEq(app("bytes_str", out.L[2], out.L[1]), app("str_sub", app("bytes_str", v.L[2], v.L[1]), lo, hi)))
			}
		}
		fx.set(x, out)
	default:
		if v.Loc != nil && v.Loc.Kind == LLocal {
			if arr, ok := under(v.Loc.LocalT).(*types.Array); ok && x.Low == nil && x.High == nil {
				et := arr.Elem()
				out := Val{T: x.Type(), L: []string{tFalse, intLit(arr.Len())}}
				ls := fx.e.leaves(et)
				for j, l := range ls {
					term := zeroOfSort(arraySort("Int", l.Sort))
					for k := int64(0); k < arr.Len(); k++ {
						ev := fx.load(&fx.cur, Val{T: types.NewPointer(et), Loc: &Loc{Kind: LLocal, Local: fmt.Sprintf("%s#%d", v.Loc.Local, k), LocalT: et}})
						term = sSto(term, intLit(k), ev.L[j])
					}
					out.L = append(out.L, term)
				}
				fx.set(x, out)
				return nil
			}
		}
		if a, ok := x.X.(*ssa.Alloc); !ok || a.Comment != "varargs" {
			fx.abstract("slice of array pointer")
		}
		r := fx.freshVal(x.Type(), "slice")
		fx.assume(fx.wellTyped(r, &fx.cur))
		fx.set(x, r)
	}
	return nil
}

// iterSeenName: the ghost "keys produced so far" of a map iteration (maps with single-leaf keys only)
func (fx *FnExec) iterSeenName(r *ssa.Range) (name, sort string, ok bool) {
	m, isMap := under(r.X.Type()).(*types.Map)
	if !isMap {
		return "", "", false
	}
	ls := fx.e.leaves(m.Key())
	if len(ls) != 1 {
		return "", "", false
	}
	return "L.iter." + r.Name(), arraySort(ls[0].Sort, "Bool"), true
}

// mapUpdatedInFunc: does the function itself insert into or delete from a map of this type?
func (fx *FnExec) mapUpdatedInFunc(t types.Type) bool {
	for _, b := range fx.fn.Blocks {
		for _, in := range b.Instrs {
			switch x := in.(type) {
			case *ssa.MapUpdate:
				if types.Identical(x.Map.Type(), t) {
					return true
				}
			case *ssa.Call:
				if bi, ok := x.Call.Value.(*ssa.Builtin); ok && bi.Name() == "delete" && types.Identical(x.Call.Args[0].Type(), t) {
					return true
				}
			}
		}
	}
	return false
}

func (fx *FnExec) next(x *ssa.Next) error {
	// (ok, k, v) of a map or string iteration: unordered enumeration, modelled as an arbitrary present key
	r := fx.freshVal(x.Type(), "next")
	rng, _ := x.Iter.(*ssa.Range)
	if rng != nil && !x.IsString {
		if m, ok := under(rng.X.Type()).(*types.Map); ok {
			mv := fx.val(rng.X)
			names := fx.mapHeapNames(rng.X.Type())
			tup := x.Type().(*types.Tuple)
			okT := r.L[0]
			nk := fx.e.nleaves(tup.At(1).Type())
			kv := Val{T: m.Key(), L: r.L[1 : 1+nk]}
			vv := Val{T: m.Elem(), L: r.L[1+nk:]}
			if b, isB := tup.At(1).Type().(*types.Basic); isB && b.Kind() == types.Invalid {
				// the key is not used by the program (for _, v := range m): it still exists
				kv = fx.freshVal(m.Key(), "nextkey")
			}
			if b, isB := tup.At(2).Type().(*types.Basic); isB && b.Kind() == types.Invalid {
				vv = Val{T: m.Elem()}
			}
			if len(kv.L) == fx.e.nleaves(m.Key()) {
				k := fx.mapKeyTerm(m.Key(), kv)
				dom := fx.heapVar(&fx.cur, names[0], "")
				if n, srt, ok := fx.iterSeenName(rng); ok && !fx.mapUpdatedInFunc(rng.X.Type()) {
					// every key is produced exactly once; the iteration ends when all have been
					seen := fx.heapVar(&fx.cur, n, srt)
					fx.c.nfresh++
					q := fmt.Sprintf("q!k!%d", fx.c.nfresh)
					ks := strings.TrimSuffix(strings.TrimPrefix(srt, "(Array "), " Bool)")
					fx.assume(sImp(okT, sNot(sSel(seen, k))))
					fx.assume(sImp(sNot(okT), fmt.Sprintf("(forall ((%s %s)) (! (=> (select %s %s) (select %s %s)) :pattern ((select %s %s))))", q, ks, sSel(dom, mv.one()), q, seen, q, sSel(dom, mv.one()), q)))
					fx.heapSet(&fx.cur, n, srt, sIte(okT, sSto(seen, k, tTrue), seen))
				}
				facts := []string{sSel(sSel(dom, mv.one()), k), fx.wellTyped(kv, &fx.cur)}
				if len(vv.L) == fx.e.nleaves(m.Elem()) {
					for j := range vv.L {
						hv := fx.heapVar(&fx.cur, names[1+j], "")
						facts = append(facts, sEq(vv.L[j], sSel(sSel(hv, mv.one()), k)))
					}
					facts = append(facts, fx.wellTyped(vv, &fx.cur))
				}
				fx.assume(sImp(okT, sAnd(facts...)))
			}
		}
	}
	fx.set(x, r)
	return nil
}

// reaches: is there a path from a to b (ignoring back edges)
func (fx *FnExec) reaches(a, b *ssa.BasicBlock) bool {
	seen := map[*ssa.BasicBlock]bool{}
	var walk func(x *ssa.BasicBlock) bool
	walk = func(x *ssa.BasicBlock) bool {
		if x == b {
			return true
		}
		if seen[x] {
			return false
		}
		seen[x] = true
		for _, s := range x.Succs {
			if fx.isBackEdge(x, s) {
				continue
			}
			if walk(s) {
				return true
			}
		}
		return false
	}
	return walk(a)
}

// typeInvFact: the declared representation invariant of the struct a pointer value points to
func (fx *FnExec) typeInvFact(v Val, h *Heap) (string, error) {
	if v.T == nil || !isPointer(v.T) || v.Loc != nil {
		return tTrue, nil
	}
	nt, ok := unalias(elemOf(v.T)).(*types.Named)
	if !ok || nt.Obj().Pkg() == nil {
		return tTrue, nil
	}
	var facts []string
	for _, ti := range fx.e.cs.TypeInvs {
		if ti.Type != nt.Origin().Obj().Name() || ti.PkgPath != nt.Obj().Pkg().Path() {
			continue
		}
		env := &Env{fx: fx, names: map[string]Val{"self": v}, heap: h, pkg: nt.Obj().Pkg()}
		t, err := env.evalBool(ti.Text)
		if err != nil {
			return "", fmt.Errorf("%s:%d: %v", ti.File, ti.Line, err)
		}
		facts = append(facts, t)
	}
	return sAnd(facts...), nil
}

// assumeInterfacePre: a method may assume the preconditions of every interface-level contract it implements
func (fx *FnExec) assumeInterfacePre() error {
	fn := fx.fn
	if fn.Signature.Recv() == nil || len(fn.Params) == 0 || fn.Object() == nil {
		return nil
	}
	rt := fn.Params[0].Type()
	for _, c := range fx.e.cs.Funcs {
		if !c.IsIface || c.Obj == nil || c.IfaceT == nil || c.Obj.Name() != fn.Name() || c == fx.iface {
			continue
		}
		if !types.Implements(rt, c.IfaceT.Underlying().(*types.Interface)) {
			if c.IfaceT.TypeParams().Len() == 0 {
				continue
			}
		}
		if len(c.Req) == 0 {
			continue
		}
		self := fx.makeInterface(fx.vals[fn.Params[0]], c.IfaceT)
		env := &Env{fx: fx, names: map[string]Val{"self": self}, heap: &fx.cur, pkg: c.Obj.Pkg()}
		for i, n := range contractParamNames(c) {
			if i+1 < len(fn.Params) && n != "" && n != "_" {
				env.names[n] = fx.vals[fn.Params[i+1]]
			}
		}
		for i := 1; i < len(fn.Params); i++ {
			env.names[fmt.Sprintf("arg%d", i-1)] = fx.vals[fn.Params[i]]
		}
		if bs := baseSigFor(c.Key, c.Obj); bs != nil && len(c.Params) == 0 {
			for i := 1; i < len(bs); i++ {
				if i < len(fn.Params) && bs[i] != "" && bs[i] != "_" {
					if _, clash := env.names[bs[i]]; !clash {
						env.names[bs[i]] = fx.vals[fn.Params[i]]
					}
				}
			}
		}
		for _, r := range c.Req {
			t, err := env.evalBool(r.Text)
			if err != nil {
				return fmt.Errorf("%s:%d: %v", r.File, r.Line, err)
			}
			fx.c.comment("precondition of " + displayKey(c.Key) + ": " + r.Text)
			fx.c.assert(t)
			fx.inheritedPre = true
		}
	}
	return nil
}

// assumeTypeInvOf: values read out of interfaces satisfy their type's representation invariant
// (it was checked when they were boxed)
func (fx *FnExec) assumeTypeInvOf(v Val, guard string) {
	if t, err := fx.typeInvFact(v, &fx.cur); err == nil && t != tTrue {
		fx.assume(sImp(sAnd(guard, sNot(fx.isNil(v))), t))
	}
}

func (fx *FnExec) assumeTypeInvIn(v Val, h *Heap) {
	if t, err := fx.typeInvFact(v, h); err == nil && t != tTrue {
		fx.assume(sImp(sNot(fx.isNil(v)), t))
	}
}

// makeSliceOk: make([]T, n) panics for n < 0; make([]T, n, c) also for c < n (so for a negative capacity)
func (fx *FnExec) makeSliceOk(x *ssa.MakeSlice, n string) string {
	ok := sLe("0", n)
	if x.Cap != nil {
		if _, same := x.Cap.(*ssa.Const); !same || x.Cap != x.Len {
			ok = sAnd(ok, sLe(n, fx.val(x.Cap).one()))
		}
	}
	return ok
}
