package main

import (
	"fmt"
	"go/constant"
	"go/token"
	"go/types"
	"sort"
	"strings"

	"golang.org/x/tools/go/ssa"
)

// ---------------------------------------------------------------------------
// Heap: map from heap variable name to its current SMT term. A variable not
// in the map has the value "<name>@<epoch>" (declared lazily).
// ---------------------------------------------------------------------------

type Heap struct {
	vers  map[string]string
	epoch int
}

func (h Heap) clone() Heap {
	m := make(map[string]string, len(h.vers))
	for k, v := range h.vers {
		m[k] = v
	}
	return Heap{vers: m, epoch: h.epoch}
}

// bufRef: a view [off, off+len) of a local byte buffer whose content is the Str-valued local variable name
type bufRef struct {
	name string
	off  string
	len  string
}

type Obligation struct {
	Name   string
	Class  string
	Fn     string
	Goal   string
	Upto   int
	Pos    string
	Text   string // human-readable statement
	Props  []string
	OnlyProps bool // Props was set by a `clauseprops` directive: the obligation belongs to those properties only
	fx     *FnExec
	Expect string // "unsat" normally; "sat" for cover obligations
	file   string // query file (assigned when first solved; unique per obligation)
}

type loopInfo struct {
	header  *ssa.BasicBlock
	blocks  map[*ssa.BasicBlock]bool
	latches []*ssa.BasicBlock
	ordinal int
	modAll  bool
	mods    map[string]bool
	oldHeap Heap // heap at loop entry (before havoc), for old-in-loop
	failAtEntry string
}

type FnExec struct {
	nameTag  string // appended to the function's display key in obligation names when the function is verified more than once
	e        *Engine
	fn       *ssa.Function
	c        *Ctx
	con      *Contract
	key      string
	vals     map[ssa.Value]Val
	reach    map[*ssa.BasicBlock]string
	heapOut  map[*ssa.BasicBlock]Heap
	heapIn   map[*ssa.BasicBlock]Heap
	entry    Heap
	cur      Heap
	curBlock *ssa.BasicBlock
	curReach string
	obls     []*Obligation
	counters map[string]int
	loops    map[*ssa.BasicBlock]*loopInfo
	names    map[string][]ssa.Value // source name -> ssa values (DebugRef)
	epochCtr *int
	abstracted []string
	uncontracted map[string]bool
	usedContracts map[string]bool
	seenCallPre   map[string]bool
	rename        map[string]string // baseline local name -> current name (pure renames only, see names.go)
	baseParams    []string          // parameter names on the baselined tree
	callRets      map[string]*ssa.Call // "Name@n" -> the call instruction (for the spec builtin ret)
	localGuards   *[]string        // when set, localByName may return path-dependent locals and records the reach guard
	lensEvaluated map[string]bool  // lensures clauses that were evaluated at some return
	params   map[string]Val
	defers   []*ssa.Defer
	fail     string // errflow ghost
	errflow  bool
	iface    *Contract // when verifying an implementation against an interface-level contract
	selfVal  *Val
	results  []Val
	retBlocks int
	allocName string
	mode     string // "full" or "safety"
	mutSlices map[ssa.Value]Val
	waived      []string
	notes       []string // modelling notes reported with the function (not abstractions)
	bufs        map[ssa.Value]*bufRef // local byte buffers (make([]byte, n)) and slices of them
	mslices     map[ssa.Value]*mslice // local element-wise mutated slices (make([]T, n) filled by index)
	ins         map[string]string // in(param): content of the buffer region before the call
	outs        map[string]string // out(param) terms during a call whose callee writes into a buffer argument
	inheritedPre bool
	implOf      types.Type
	outerVal    *Val
	inTypeInv   bool
	inContractApply bool
	zeroInit    bool
	nosafetyAssumed int
	localNames  map[string]bool
	modCache    map[string][]string
	modCacheAll bool
	modCacheCon *Contract
}

func (e *Engine) newFnExec(fn *ssa.Function, con *Contract) *FnExec {
	n := 0
	fx := &FnExec{e: e, fn: fn, c: newCtx(), con: con, vals: map[ssa.Value]Val{}, reach: map[*ssa.BasicBlock]string{},
		heapOut: map[*ssa.BasicBlock]Heap{}, heapIn: map[*ssa.BasicBlock]Heap{}, counters: map[string]int{}, loops: map[*ssa.BasicBlock]*loopInfo{},
		names: map[string][]ssa.Value{}, epochCtr: &n, uncontracted: map[string]bool{}, usedContracts: map[string]bool{}, seenCallPre: map[string]bool{}, callRets: map[string]*ssa.Call{}, lensEvaluated: map[string]bool{}, params: map[string]Val{},
		mutSlices: map[ssa.Value]Val{}, localNames: map[string]bool{}, bufs: map[ssa.Value]*bufRef{}, mslices: map[ssa.Value]*mslice{}}
	fx.entry = Heap{vers: map[string]string{}, epoch: 0}
	fx.key = keyOfFunction(fn)
	return fx
}

func (fx *FnExec) heapVar(h *Heap, name, sort string) string {
	if t, ok := h.vers[name]; ok {
		return t
	}
	if s, ok := fx.e.heapSort[name]; ok {
		sort = s
	} else {
		fx.e.heapSort[name] = sort
	}
	ep := h.epoch
	if fx.survivesHavoc(name) {
		// immutable fields and private ghosts are not touched by `modifies *`: an untouched one is still the entry version
		ep = 0
	}
	n := smtName(fmt.Sprintf("%s@%d", name, ep))
	fx.c.declare(n, sort)
	return n
}

func (fx *FnExec) survivesHavoc(name string) bool {
	if fx.isImmutable(name) {
		return true
	}
	if strings.HasPrefix(name, "ghost.") {
		for _, g := range fx.e.cs.Ghosts {
			if g.Private && "ghost."+g.Name == name {
				return true
			}
		}
	}
	return false
}

func (fx *FnExec) isMonotone(name string) bool {
	for _, n := range fx.e.cs.Monotone {
		if n == name {
			return true
		}
	}
	return false
}

func (fx *FnExec) heapSet(h *Heap, name, sort, term string) {
	if _, ok := fx.e.heapSort[name]; !ok {
		fx.e.heapSort[name] = sort
	}

	// introduce a named version to keep terms small
	v := fx.c.fresh(name, fx.e.heapSort[name])
	fx.c.assert(sEq(v, term))
	h.vers[name] = v
}

func (fx *FnExec) havocVar(h *Heap, name string) {
	s := fx.e.heapSort[name]
	if s == "" {
		return
	}
	h.vers[name] = fx.c.fresh(name, s)
}

func (fx *FnExec) havocAll(h *Heap) {
	*fx.epochCtr++
	alloc := fx.heapVar(h, "$alloc", "Int")
	keep := map[string]string{}
	if fx.errflow {
		keep["$fail"] = fx.heapVar(h, "$fail", "Bool")
	}
	for n, v := range h.vers {
		if strings.HasPrefix(n, "L.") {
			keep[n] = v
		}
	}
	for n := range fx.localNames {
		if _, ok := keep[n]; !ok {
			keep[n] = fx.heapVar(h, n, fx.e.heapSort[n])
		}
	}
	// immutable fields: written only while the object is being constructed
	for _, n := range fx.e.cs.Immutable {
		if _, ok := fx.e.heapSort[n]; ok {
			keep[n] = fx.heapVar(h, n, fx.e.heapSort[n])
		}
	}
	for _, g := range fx.e.cs.Ghosts {
		if g.Private {
			keep["ghost."+g.Name] = fx.heapVar(h, "ghost."+g.Name, g.Sort)
		}
	}
	oldMono := map[string]string{}
	for _, n := range fx.e.cs.Monotone {
		if srt, ok := fx.e.heapSort[n]; ok {
			oldMono[n] = fx.heapVar(h, n, srt)
		} else {
			srt := arraySort("Int", "Int")
			for _, g := range fx.e.cs.Ghosts {
				if "ghost."+g.Name == n {
					srt = g.Sort
				}
			}
			fx.e.heapSort[n] = srt
			oldMono[n] = fx.heapVar(h, n, srt)
		}
	}
	h.vers = keep
	h.epoch = *fx.epochCtr
	for _, n := range fx.e.cs.Monotone {
		nv := fx.heapVar(h, n, fx.e.heapSort[n])
		fx.c.nfresh++
		q := fmt.Sprintf("q!m!%d", fx.c.nfresh)
		if fx.e.heapSort[n] == arraySort("Int", "Bool") {
			// a latch: an entry that is set stays set
			fx.c.assert(fmt.Sprintf("(forall ((%s Int)) (! (=> (select %s %s) (select %s %s)) :pattern ((select %s %s)) :pattern ((select %s %s))))", q, oldMono[n], q, nv, q, nv, q, oldMono[n], q))
			continue
		}
		fx.c.assert(fmt.Sprintf("(forall ((%s Int)) (! (=> (not (= (select %s %s) 0)) (not (= (select %s %s) 0))) :pattern ((select %s %s))))", q, oldMono[n], q, nv, q, nv, q))
	}
	// the allocation counter only grows
	na := fx.heapVar(h, "$alloc", "Int")
	fx.assume(sLe(alloc, na))
}

// ---------------------------------------------------------------------------

func (fx *FnExec) ord(class string) int {
	fx.counters[class]++
	return fx.counters[class]
}

func (fx *FnExec) pos(p token.Pos) string {
	if !p.IsValid() {
		return ""
	}
	ps := fx.e.fset.Position(p)
	return fmt.Sprintf("%s:%d", strings.TrimPrefix(ps.Filename, fx.e.repo+"/"), ps.Line)
}

func (fx *FnExec) assume(t string) {
	fx.c.assert(sImp(fx.curReach, t))
}

var safetyClasses = map[string]bool{"typeinv-exit": true, "immutable": true, "monotone": true, "boxnil": true, "typeinv": true, "nil": true, "idx": true, "assert": true, "div": true, "unreachable": true, "makeslice": true}

func (fx *FnExec) oblige(class, label, goal, text string, p token.Pos) *Obligation {
	if fx.con != nil {
		if why, ok := fx.con.Flags["waive:"+class]; ok {
			fx.waived = append(fx.waived, class+": "+why)
			if class != "immutable" && class != "monotone" {
				// (a waived guarantee is simply not checked; assuming it would contradict the facts that make it fail)
				fx.assume(goal)
			}
			return &Obligation{}
		}
		// waive <class>#<label prefix> <reason>: only the obligations of that class whose label starts so
		for k, why := range fx.con.Flags {
			if pre := "waive:" + class + "#"; strings.HasPrefix(k, pre) && label != "" && strings.HasPrefix(label, k[len(pre):]) {
				fx.waived = append(fx.waived, class+"#"+k[len(pre):]+": "+why)
				fx.assume(goal)
				return &Obligation{}
			}
		}
	}
	if safetyClasses[class] && fx.con != nil && hasFlag(fx.con, "nosafety") {
		// panic-freedom of this function is not claimed here: assumed
		fx.nosafetyAssumed++
		fx.assume(goal)
		return &Obligation{}
	}
	name := class
	if label != "" {
		name += "#" + label
	} else {
		name += fmt.Sprintf("#%d", fx.ord(class))
	}
	o := &Obligation{Name: displayKey(fx.key) + fx.nameTag + "/" + name, Class: class, Fn: fx.key, Goal: sImp(fx.curReach, goal), Upto: fx.c.mark(), Pos: fx.pos(p), Text: text, fx: fx, Expect: "unsat"}
	fx.obls = append(fx.obls, o)
	// after checking, the fact may be assumed
	fx.assume(goal)
	return o
}

// ---------------------------------------------------------------------------
// value helpers
// ---------------------------------------------------------------------------

func (fx *FnExec) freshVal(t types.Type, prefix string) Val {
	ls := fx.e.leaves(t)
	v := Val{T: t}
	for _, l := range ls {
		v.L = append(v.L, fx.c.fresh(prefix, l.Sort))
	}
	return v
}

func zeroOfSort(s string) string {
	switch s {
	case "Int":
		return "0"
	case "Bool":
		return tFalse
	case "Real":
		return "0.0"
	case "Str":
		return "str_empty"
	}
	if strings.HasPrefix(s, "(Array ") {
		// (Array Int X)
		inner := strings.TrimSuffix(strings.TrimPrefix(s, "(Array Int "), ")")
		if inner == "Str" {
			return "zeroarr_Str"
		}
		return fmt.Sprintf("((as const %s) %s)", s, zeroOfSort(inner))
	}
	return "0"
}

func (fx *FnExec) zeroVal(t types.Type) Val {
	ls := fx.e.leaves(t)
	v := Val{T: t}
	for _, l := range ls {
		if l.Path == "nil" && l.Sort == "Bool" && isSlice(t) {
			v.L = append(v.L, tTrue)
			continue
		}
		v.L = append(v.L, zeroOfSort(l.Sort))
	}
	// nested slices inside structs: find nil leaves by path suffix
	if !isSlice(t) {
		for i, l := range ls {
			if l.Sort == "Bool" && (l.Path == "nil" || strings.HasSuffix(l.Path, ".nil")) && fx.leafIsSliceNil(t, l.Path) {
				v.L[i] = tTrue
			}
		}
	}
	return v
}

// leafIsSliceNil reports whether the leaf at path (ending in "nil") is the nil flag of a slice
func (fx *FnExec) leafIsSliceNil(t types.Type, path string) bool {
	parts := strings.Split(path, ".")
	cur := t
	for i, p := range parts {
		if isTypeParam(cur) {
			return false
		}
		switch u := under(cur).(type) {
		case *types.Struct:
			found := false
			for j := 0; j < u.NumFields(); j++ {
				if u.Field(j).Name() == p {
					cur = u.Field(j).Type()
					found = true
					break
				}
			}
			if !found {
				return false
			}
		case *types.Slice:
			return p == "nil" && i == len(parts)-1
		default:
			return false
		}
	}
	return false
}

// wellTyped returns the facts that hold of every value of static type t
func (fx *FnExec) wellTyped(v Val, h *Heap) string {
	if v.T == nil || v.Loc != nil || v.Fn != nil {
		return tTrue
	}
	ls := fx.e.leaves(v.T)
	if len(ls) != len(v.L) {
		return tTrue
	}
	var facts []string
	for i, l := range ls {
		if l.Sort == "Int" && l.T != nil {
			facts = append(facts, rangeFact(v.L[i], l.T))
		}
		if l.Sort == "Str" {
			facts = append(facts, sLe(app("str_len", v.L[i]), "4611686018427387903")) // no string is longer than 2^62 bytes
		}
		if l.Sort == "Int" && (l.Path == "len" || strings.HasSuffix(l.Path, ".len")) {
			facts = append(facts, sLe("0", v.L[i]), sLe(v.L[i], "4611686018427387903")) // no object is larger than 2^62 bytes
			// nil slices are empty
			if i > 0 && ls[i-1].Sort == "Bool" && (ls[i-1].Path == "nil" || strings.HasSuffix(ls[i-1].Path, ".nil")) {
				facts = append(facts, sImp(v.L[i-1], sEq(v.L[i], "0")))
			}
		}
	}
	if isTypeParam(v.T) {
		return sAnd(facts...)
	}
	if isSlice(v.T) && len(v.L) == 3 {
		if et := elemOf(v.T); typeKey(et) == "byte" || typeKey(et) == "uint8" {
			// a nil (hence empty) byte slice denotes the empty string
			facts = append(facts, sImp(sEq(v.L[1], "0"), sEq(app("bytes_str", v.L[2], v.L[1]), "str_empty")))
		}
	}
	switch under(v.T).(type) {
	case *types.Pointer, *types.Map:
		if h != nil {
			facts = append(facts, sLt(v.L[0], fx.heapVar(h, "$alloc", "Int")), sLe("0", v.L[0]))
		}
		facts = append(facts, entryHeapFact(v.L[0]))
	case *types.Interface:
		facts = append(facts, sLe("0", v.L[0]))
		facts = append(facts, entryHeapFact(v.L[1]))
		if fx.e.closedWorld(v.T) {
			ids := fx.e.implementors(v.T)
			alts := []string{sEq(v.L[0], "0")}
			for _, id := range ids {
				alts = append(alts, sEq(v.L[0], intLit(int64(id))))
			}
			facts = append(facts, sOr(alts...))
			// closed-world node interfaces never hold a nil pointer (checked wherever a pointer is boxed into one)
			facts = append(facts, sImp(sNot(sEq(v.L[0], "0")), sNot(sEq(v.L[1], "0"))))
		}
		// a nil interface has a nil payload
		facts = append(facts, sImp(sEq(v.L[0], "0"), sEq(v.L[1], "0")))
		if h != nil {
			facts = append(facts, sLt(v.L[1], fx.heapVar(h, "$alloc", "Int")))
		}
	}
	return sAnd(facts...)
}

// entryHeapFact: a pointer read from the entry version of a heap array at an object that existed at entry
// points to an object that existed at entry (the entry heap holds no pointers to objects allocated later)
func entryHeapFact(term string) string {
	if !strings.HasPrefix(term, "(select ") || !strings.HasSuffix(term, ")") {
		return tTrue
	}
	rest := term[len("(select ") : len(term)-1]
	sp := strings.IndexByte(rest, ' ')
	if sp < 0 {
		return tTrue
	}
	arr, idx := rest[:sp], rest[sp+1:]
	if !strings.HasSuffix(arr, "@0") || !(strings.HasPrefix(arr, "H.") || strings.HasPrefix(arr, "Cell.")) {
		return tTrue
	}
	return sImp(sLt(idx, "$alloc@0"), sLt(term, "$alloc@0"))
}

func (fx *FnExec) constVal(c *ssa.Const) Val {
	t := c.Type()
	if c.Value == nil {
		return fx.zeroVal(t)
	}
	if isTypeParam(t) {
		return fx.zeroVal(t)
	}
	switch u := under(t).(type) {
	case *types.Basic:
		switch {
		case u.Info()&types.IsBoolean != 0:
			if constant.BoolVal(c.Value) {
				return Val{T: t, L: []string{tTrue}}
			}
			return Val{T: t, L: []string{tFalse}}
		case u.Info()&types.IsInteger != 0:
			s := c.Value.ExactString()
			if strings.HasPrefix(s, "-") {
				s = "(- " + s[1:] + ")"
			}
			return Val{T: t, L: []string{s}}
		case u.Info()&types.IsFloat != 0:
			f, _ := constant.Float64Val(c.Value)
			return Val{T: t, L: []string{realLit(f)}}
		case u.Info()&types.IsString != 0:
			return Val{T: t, L: []string{fx.c.strLit(constant.StringVal(c.Value))}}
		}
	}
	return fx.zeroVal(t)
}

func realLit(f float64) string {
	s := fmt.Sprintf("%f", f)
	if f < 0 {
		return "(- " + s[1:] + ")"
	}
	return s
}

func (fx *FnExec) val(v ssa.Value) Val {
	if b, ok := fx.bufs[v]; ok {
		return fx.materializeBuf(v.Type(), b)
	}
	if m, ok := fx.mslices[v]; ok {
		return fx.materializeMslice(v.Type(), m)
	}
	if r, ok := fx.vals[v]; ok {
		return r
	}
	switch x := v.(type) {
	case *ssa.Const:
		return fx.constVal(x)
	case *ssa.Global:
		return Val{T: x.Type(), Loc: &Loc{Kind: LGlobal, Global: x, ElemT: elemOf(x.Type())}}
	case *ssa.Function:
		r := Val{T: x.Type(), L: []string{fx.funcHandle(x)}, Fn: &FnVal{Fn: x}}
		return r
	case *ssa.Builtin:
		return Val{T: x.Type(), L: []string{"0"}}
	case *ssa.FreeVar:
		r := fx.freshVal(x.Type(), "fv."+x.Name())
		fx.vals[v] = r
		return r
	}
	// value not yet computed (e.g. defined in a block not yet processed): unconstrained
	r := fx.freshVal(v.Type(), "undef")
	fx.vals[v] = r
	return r
}

func (fx *FnExec) funcHandle(f *ssa.Function) string {
	n := smtName("fn." + f.String())
	fx.c.declare(n, "Int")
	return n
}

// ---------------------------------------------------------------------------
// memory access
// ---------------------------------------------------------------------------

func ownerKey(t types.Type) string { return typeKey(t) }

func (fx *FnExec) structOf(t types.Type) (*types.Struct, bool) {
	if isTypeParam(t) {
		return nil, false
	}
	s, ok := under(t).(*types.Struct)
	return s, ok
}

func fieldHeapName(owner types.Type, field *types.Var, leafPath string) string {
	n := "H." + ownerKey(owner) + "." + field.Name()
	if leafPath != "" {
		n += "." + leafPath
	}
	return n
}

// loadStruct reads a struct value stored at address addr
func (fx *FnExec) loadStruct(h *Heap, addr string, t types.Type) Val {
	st, _ := fx.structOf(t)
	out := Val{T: t}
	for i := 0; i < st.NumFields(); i++ {
		f := st.Field(i)
		if _, ok := fx.structOf(f.Type()); ok {
			sub := fx.subAddr(addr, t, i)
			out.L = append(out.L, fx.loadStruct(h, sub, f.Type()).L...)
			continue
		}
		out.L = append(out.L, fx.loadField(h, addr, t, i).L...)
	}
	return out
}

func (fx *FnExec) subAddr(base string, owner types.Type, idx int) string {
	tag := fx.e.fieldTag(ownerKey(owner), idx)
	t := app("sub_addr", base, intLit(int64(tag)))
	fx.c.assert(sAnd(sEq(app("sub_inv", t), base), sEq(app("sub_tag", t), intLit(int64(tag))), sImp(app(">", base, "0"), app(">", t, "0"))))
	if fx.allocName != "" {
		fx.c.assert(sEq(sLt(t, fx.allocName), sLt(base, fx.allocName)))
	}
	return t
}

func (fx *FnExec) loadField(h *Heap, addr string, owner types.Type, idx int) Val {
	st, _ := fx.structOf(owner)
	f := st.Field(idx)
	out := Val{T: f.Type()}
	for _, l := range fx.e.leaves(f.Type()) {
		hv := fx.heapVar(h, fieldHeapName(owner, f, l.Path), arraySort("Int", l.Sort))
		out.L = append(out.L, sSel(hv, addr))
	}
	return out
}

func (fx *FnExec) storeField(h *Heap, addr string, owner types.Type, idx int, v Val) {
	st, _ := fx.structOf(owner)
	f := st.Field(idx)
	for _, mf := range fx.e.cs.Models {
		if mf.Field == f.Name() && ownerKey(owner) == shortPkg(mf.PkgPath)+"."+mf.Type {
			g := fx.e.ghosts[mf.Ghost]
			sd := fx.e.specs[mf.Fn]
			if g != nil && sd != nil && len(v.L) >= 1 {
				fx.useSpec(sd)
				arg := v.L[0]
				if isInterface(f.Type()) {
					arg = v.L[1]
				} else if isSlice(f.Type()) && len(v.L) >= 3 {
					arg = app("bytes_str", v.L[2], v.L[1])
				}
				gv := fx.heapVar(h, "ghost."+g.Name, g.Sort)
				fx.heapSet(h, "ghost."+g.Name, g.Sort, sSto(gv, addr, app(smtName(sd.Name), arg)))
			}
		}
	}
	ls := fx.e.leaves(f.Type())
	for i, l := range ls {
		name := fieldHeapName(owner, f, l.Path)
		hv := fx.heapVar(h, name, arraySort("Int", l.Sort))
		fx.monotoneCheck(name, hv, addr, v.L[i])
		fx.heapSet(h, name, arraySort("Int", l.Sort), sSto(hv, addr, v.L[i]))
	}
}

func (fx *FnExec) isImmutable(name string) bool {
	for _, n := range fx.e.cs.Immutable {
		if n == name {
			return true
		}
	}
	return false
}

// monotoneCheck: guarantee side of a `monotone` declaration - a write does not reset a set entry
func (fx *FnExec) monotoneCheck(name, old, addr, v string) {
	if !fx.zeroInit && !fx.inContractApply && fx.con != nil && fx.isImmutable(name) && fx.allocName != "" {
		fx.oblige("immutable", "", sLe(fx.allocName, addr), name+" is written only on an object allocated by the writing function", token.NoPos)
	}
	if fx.zeroInit || fx.inContractApply || fx.con == nil || !fx.isMonotone(name) {
		return
	}
	fx.oblige("monotone", "", sImp(sNot(sEq(sSel(old, addr), "0")), sNot(sEq(v, "0"))), "a write to "+name+" does not reset a non-nil entry to nil", token.NoPos)
}

func (fx *FnExec) storeStruct(h *Heap, addr string, t types.Type, v Val) {
	st, _ := fx.structOf(t)
	off := 0
	for i := 0; i < st.NumFields(); i++ {
		f := st.Field(i)
		n := fx.e.nleaves(f.Type())
		fv := Val{T: f.Type(), L: v.L[off : off+n]}
		off += n
		if _, ok := fx.structOf(f.Type()); ok {
			fx.storeStruct(h, fx.subAddr(addr, t, i), f.Type(), fv)
		} else {
			fx.storeField(h, addr, t, i, fv)
		}
	}
}

func cellName(t types.Type, leafPath string) string {
	n := "Cell." + typeKey(t)
	if leafPath != "" {
		n += "." + leafPath
	}
	return n
}

// loadCell reads *ptr for a pointer to a non-struct type. The pointer may be the address of a
// field whose address escapes somewhere in the repository (sub_tag identifies which).
func (fx *FnExec) loadCell(h *Heap, ptr string, t types.Type) Val {
	out := Val{T: t}
	cands := fx.e.escaping[typeKey(t)]
	for _, l := range fx.e.leaves(t) {
		hv := fx.heapVar(h, cellName(t, l.Path), arraySort("Int", l.Sort))
		term := sSel(hv, ptr)
		for i := len(cands) - 1; i >= 0; i-- {
			c := cands[i]
			st, _ := fx.structOf(c.owner)
			fh := fx.heapVar(h, fieldHeapName(c.owner, st.Field(c.idx), l.Path), arraySort("Int", l.Sort))
			term = sIte(sEq(app("sub_tag", ptr), intLit(int64(c.tag))), sSel(fh, app("sub_inv", ptr)), term)
		}
		out.L = append(out.L, term)
	}
	return out
}

func (fx *FnExec) storeCell(h *Heap, ptr string, t types.Type, v Val) {
	cands := fx.e.escaping[typeKey(t)]
	var none []string
	for _, c := range cands {
		none = append(none, sNot(sEq(app("sub_tag", ptr), intLit(int64(c.tag)))))
	}
	for i, l := range fx.e.leaves(t) {
		name := cellName(t, l.Path)
		hv := fx.heapVar(h, name, arraySort("Int", l.Sort))
		fx.monotoneCheck(name, hv, ptr, v.L[i])
		fx.heapSet(h, name, arraySort("Int", l.Sort), sIte(sAnd(none...), sSto(hv, ptr, v.L[i]), hv))
		for _, c := range cands {
			st, _ := fx.structOf(c.owner)
			fn := fieldHeapName(c.owner, st.Field(c.idx), l.Path)
			fh := fx.heapVar(h, fn, arraySort("Int", l.Sort))
			if fx.isMonotone(fn) && !fx.zeroInit && !fx.inContractApply && fx.con != nil {
				fx.oblige("monotone", "", sImp(sAnd(sEq(app("sub_tag", ptr), intLit(int64(c.tag))), sNot(sEq(sSel(fh, app("sub_inv", ptr)), "0"))), sNot(sEq(v.L[i], "0"))), "a write through a pointer to "+fn+" does not reset a non-nil entry to nil", token.NoPos)
			}
			fx.heapSet(h, fn, arraySort("Int", l.Sort), sIte(sEq(app("sub_tag", ptr), intLit(int64(c.tag))), sSto(fh, app("sub_inv", ptr), v.L[i]), fh))
		}
	}
}

// plain turns an address value into an ordinary pointer term where that is possible
func (fx *FnExec) plain(v Val) Val {
	if v.Loc == nil {
		return v
	}
	switch v.Loc.Kind {
	case LField:
		return Val{T: v.T, L: []string{fx.subAddr(v.Loc.Base, v.Loc.Owner, v.Loc.Field)}}
	case LGlobal:
		n := smtName("gaddr." + v.Loc.Global.Pkg.Pkg.Name() + "." + v.Loc.Global.Name())
		fx.c.declare(n, "Int")
		fx.c.assert(sAnd(app(">", n, "0"), sEq(app("sub_tag", n), "0")))
		fx.abstract("address of package variable " + v.Loc.Global.Name() + " used as a value (its cell is not linked to the variable)")
		return Val{T: v.T, L: []string{n}}
	}
	fx.abstract("address of slice element used as a value")
	return fx.freshVal(v.T, "addr")
}

func globalName(g *ssa.Global, leafPath string) string {
	n := "G." + g.Pkg.Pkg.Name() + "." + g.Name()
	if leafPath != "" {
		n += "." + leafPath
	}
	return n
}

func localLeafName(base, path string) string {
	if path == "" {
		return base
	}
	return base + "." + path
}

// nonEscaping: the address of the alloc is only used for direct loads, stores and field selection
func nonEscaping(v ssa.Value, depth int) bool {
	refs := v.Referrers()
	if refs == nil || depth > 6 {
		return false
	}
	for _, r := range *refs {
		switch x := r.(type) {
		case *ssa.Store:
			if x.Val == v {
				return false
			}
		case *ssa.UnOp:
			if x.Op != token.MUL {
				return false
			}
		case *ssa.DebugRef:
		case *ssa.FieldAddr:
			if !nonEscaping(x, depth+1) {
				return false
			}
		default:
			return false
		}
	}
	return true
}

// localSliceOrigin: the slice value comes only from slice literals, make, nil, append onto such values, or phis of them
func localSliceOrigin(v ssa.Value, seen map[ssa.Value]bool) bool {
	if seen[v] {
		return true
	}
	seen[v] = true
	switch x := v.(type) {
	case *ssa.Const:
		return x.Value == nil
	case *ssa.MakeSlice:
		return true
	case *ssa.Slice:
		if a, ok := x.X.(*ssa.Alloc); ok {
			_, isArr := arrayLocal(a)
			return isArr
		}
		return false
	case *ssa.Phi:
		for _, e := range x.Edges {
			if !localSliceOrigin(e, seen) {
				return false
			}
		}
		return true
	case *ssa.Call:
		if b, ok := x.Call.Value.(*ssa.Builtin); ok && b.Name() == "append" && len(x.Call.Args) > 0 {
			return localSliceOrigin(x.Call.Args[0], seen)
		}
	}
	return false
}

func (fx *FnExec) inAnyLoop() bool {
	if fx.curBlock == nil {
		return true
	}
	for h, li := range fx.loops {
		if li.blocks[fx.curBlock] || h == fx.curBlock {
			return true
		}
	}
	return false
}

// byteArrayBuffer: new [N]byte whose address is only sliced (the compiled form of make([]byte, N) for constant N)
func byteArrayBuffer(a *ssa.Alloc) (int64, bool) {
	et := elemOf(a.Type())
	if et == nil || isTypeParam(et) {
		return 0, false
	}
	arr, ok := under(et).(*types.Array)
	if !ok || a.Referrers() == nil {
		return 0, false
	}
	if b, isb := under(arr.Elem()).(*types.Basic); !isb || b.Kind() != types.Uint8 {
		return 0, false
	}
	n := 0
	for _, r := range *a.Referrers() {
		switch r.(type) {
		case *ssa.Slice:
			n++
		case *ssa.DebugRef:
		default:
			return 0, false
		}
	}
	return arr.Len(), n > 0
}

// arrayLocal: a local array (typically the backing store of a variadic argument list) whose address is only
// used for constant-index element access and for slicing
func arrayLocal(a *ssa.Alloc) (*types.Array, bool) {
	et := elemOf(a.Type())
	if et == nil || isTypeParam(et) {
		return nil, false
	}
	arr, ok := under(et).(*types.Array)
	if !ok || arr.Len() > 16 || a.Referrers() == nil {
		return nil, false
	}
	for _, r := range *a.Referrers() {
		switch x := r.(type) {
		case *ssa.IndexAddr:
			if _, isConst := x.Index.(*ssa.Const); !isConst || !nonEscaping(x, 1) {
				return nil, false
			}
		case *ssa.Slice:
			if x.Low != nil || x.High != nil || x.Max != nil {
				return nil, false
			}
		case *ssa.DebugRef:
		default:
			return nil, false
		}
	}
	return arr, true
}

// load through a pointer value
func (fx *FnExec) load(h *Heap, p Val) Val {
	et := elemOf(p.T)
	if p.Loc != nil {
		switch p.Loc.Kind {
		case LMutElem:
			out := Val{T: p.Loc.ElemT}
			for _, l := range fx.e.leaves(p.Loc.ElemT) {
				out.L = append(out.L, sSel(fx.heapVar(h, fx.msliceLeafName(p.Loc.Ms, l.Path), arraySort("Int", l.Sort)), p.Loc.Idx))
			}
			return out
		case LBufElem:
			cur := fx.heapVar(h, p.Loc.Buf.name, "Str")
			return Val{T: p.Loc.ElemT, L: []string{app("str_at", cur, sAdd(p.Loc.Buf.off, p.Loc.Idx))}}
		case LLocal:
			t := p.Loc.LocalT
			out := Val{T: t}
			for _, l := range fx.e.leaves(t) {
				out.L = append(out.L, fx.heapVar(h, localLeafName(p.Loc.Local, l.Path), l.Sort))
			}
			return out
		case LField:
			return fx.loadField(h, p.Loc.Base, p.Loc.Owner, p.Loc.Field)
		case LGlobal:
			t := p.Loc.ElemT
			out := Val{T: t}
			for _, l := range fx.e.leaves(t) {
				out.L = append(out.L, fx.heapVar(h, globalName(p.Loc.Global, l.Path), l.Sort))
			}
			return out
		case LElem:
			return fx.sliceElem(*p.Loc.Slice, p.Loc.Idx)
		}
	}
	if et == nil {
		return fx.freshVal(types.Typ[types.Int], "badload")
	}
	if _, ok := fx.structOf(et); ok {
		return fx.loadStruct(h, p.one(), et)
	}
	return fx.loadCell(h, p.one(), et)
}

func (fx *FnExec) store(h *Heap, p Val, v Val) {
	et := elemOf(p.T)
	if p.Loc != nil {
		switch p.Loc.Kind {
		case LMutElem:
			for i, l := range fx.e.leaves(p.Loc.ElemT) {
				if i < len(v.L) {
					n := fx.msliceLeafName(p.Loc.Ms, l.Path)
					srt := arraySort("Int", l.Sort)
					fx.heapSet(h, n, srt, sSto(fx.heapVar(h, n, srt), p.Loc.Idx, v.L[i]))
				}
			}
			return
		case LBufElem:
			fx.bufSet(p.Loc.Buf, p.Loc.Idx, v.L[0])
			return
		case LLocal:
			for i, l := range fx.e.leaves(p.Loc.LocalT) {
				if i < len(v.L) {
					fx.heapSet(h, localLeafName(p.Loc.Local, l.Path), l.Sort, v.L[i])
				}
			}
			return
		case LField:
			fx.storeField(h, p.Loc.Base, p.Loc.Owner, p.Loc.Field, v)
			return
		case LGlobal:
			for i, l := range fx.e.leaves(p.Loc.ElemT) {
				fx.heapSet(h, globalName(p.Loc.Global, l.Path), l.Sort, v.L[i])
			}
			return
		case LElem:
			if sv := p.Loc.SliceV; sv != nil && localSliceOrigin(sv, map[ssa.Value]bool{}) && !fx.inAnyLoop() {
				// a slice built and held only in local variables (literal / make / append / phi of those), updated
				// outside any loop: the update is a functional update of that variable's value
				cur := fx.val(sv)
				ls := fx.e.leaves(p.Loc.ElemT)
				if len(cur.L) == 2+len(ls) && len(v.L) == len(ls) {
					nv := Val{T: cur.T, L: append([]string{}, cur.L...)}
					for i := range ls {
						nv.L[2+i] = sSto(cur.L[2+i], p.Loc.Idx, v.L[i])
					}
					fx.vals[sv] = nv
					return
				}
			}
			fx.abstract("store to slice element (slices are modelled as immutable values)")
			return
		}
	}
	if et == nil {
		fx.abstract("store through untyped pointer")
		return
	}
	if _, ok := fx.structOf(et); ok {
		fx.storeStruct(h, p.one(), et, v)
		return
	}
	fx.storeCell(h, p.one(), et, v)
}

// slice value layout: [nil, len, arr...]
func (fx *FnExec) sliceElem(s Val, idx string) Val {
	et := elemOf(s.T)
	out := Val{T: et}
	for i := range fx.e.leaves(et) {
		out.L = append(out.L, sSel(s.L[2+i], idx))
	}
	return out
}

func (fx *FnExec) abstract(what string) {
	fx.abstracted = append(fx.abstracted, what)
}

// alloc returns a fresh non-nil reference
func (fx *FnExec) alloc(h *Heap) string {
	a := fx.heapVar(h, "$alloc", "Int")
	r := fx.c.fresh("ref", "Int")
	fx.c.assert(sAnd(sEq(r, a), app(">", r, "0"), sEq(app("sub_tag", r), "0")))
	fx.heapSet(h, "$alloc", "Int", sAdd(a, "1"))
	for _, g := range fx.e.cs.Ghosts {
		if g.Default != "" && strings.HasPrefix(g.Sort, "(Array Int ") {
			fx.c.assert(sEq(sSel(fx.heapVar(h, "ghost."+g.Name, g.Sort), r), g.Default))
		}
	}
	return r
}

// ---------------------------------------------------------------------------
// loops
// ---------------------------------------------------------------------------

func (fx *FnExec) findLoops() {
	fn := fx.fn
	for _, b := range fn.Blocks {
		for _, s := range b.Succs {
			if s.Dominates(b) {
				li := fx.loops[s]
				if li == nil {
					li = &loopInfo{header: s, blocks: map[*ssa.BasicBlock]bool{s: true}, mods: map[string]bool{}}
					fx.loops[s] = li
				}
				li.latches = append(li.latches, b)
				// natural loop
				stack := []*ssa.BasicBlock{b}
				for len(stack) > 0 {
					x := stack[len(stack)-1]
					stack = stack[:len(stack)-1]
					if li.blocks[x] {
						continue
					}
					li.blocks[x] = true
					stack = append(stack, x.Preds...)
				}
			}
		}
	}
	var hs []*ssa.BasicBlock
	for h := range fx.loops {
		hs = append(hs, h)
	}
	sort.Slice(hs, func(i, j int) bool { return hs[i].Index < hs[j].Index })
	for i, h := range hs {
		fx.loops[h].ordinal = i + 1
	}
}

func (fx *FnExec) isBackEdge(from, to *ssa.BasicBlock) bool {
	return to.Dominates(from)
}

// topological order of blocks ignoring back edges
func (fx *FnExec) order() []*ssa.BasicBlock {
	var out []*ssa.BasicBlock
	seen := map[*ssa.BasicBlock]bool{}
	var visit func(b *ssa.BasicBlock)
	visit = func(b *ssa.BasicBlock) {
		if seen[b] {
			return
		}
		seen[b] = true
		for i := len(b.Succs) - 1; i >= 0; i-- {
			s := b.Succs[i]
			if fx.isBackEdge(b, s) {
				continue
			}
			visit(s)
		}
		out = append(out, b)
	}
	if len(fx.fn.Blocks) > 0 {
		visit(fx.fn.Blocks[0])
	}
	// recover block (if any) is not analysed
	for i, j := 0, len(out)-1; i < j; i, j = i+1, j-1 {
		out[i], out[j] = out[j], out[i]
	}
	return out
}

func (fx *FnExec) edgeCond(from, to *ssa.BasicBlock, which int) string {
	r := fx.reach[from]
	if r == "" {
		return tFalse
	}
	if ifi, ok := from.Instrs[len(from.Instrs)-1].(*ssa.If); ok {
		c := fx.val(ifi.Cond).one()
		if from.Succs[0] == to && from.Succs[1] == to {
			return r
		}
		if which == 0 {
			return sAnd(r, c)
		}
		return sAnd(r, sNot(c))
	}
	return r
}

type inEdge struct {
	pred  *ssa.BasicBlock
	pidx  int // index in b.Preds
	cond  string
}

func (fx *FnExec) inEdges(b *ssa.BasicBlock, back bool) []inEdge {
	var out []inEdge
	for i, p := range b.Preds {
		if fx.isBackEdge(p, b) != back {
			continue
		}
		if _, done := fx.reach[p]; !done {
			continue
		}
		// which successor slot of p leads to b? (handle duplicates by pred index order)
		which := 0
		cnt := 0
		for k := 0; k < i; k++ {
			if b.Preds[k] == p {
				cnt++
			}
		}
		seen := 0
		for si, s := range p.Succs {
			if s == b {
				if seen == cnt {
					which = si
					break
				}
				seen++
			}
		}
		out = append(out, inEdge{pred: p, pidx: i, cond: fx.edgeCond(p, b, which)})
	}
	return out
}

func (fx *FnExec) mergeHeaps(edges []inEdge) Heap {
	if len(edges) == 0 {
		return fx.entry.clone()
	}
	if len(edges) == 1 {
		return fx.heapOut[edges[0].pred].clone()
	}
	// all names with differing versions
	first := fx.heapOut[edges[0].pred]
	sameEpoch := true
	names := map[string]bool{}
	for _, e := range edges {
		h := fx.heapOut[e.pred]
		if h.epoch != first.epoch {
			sameEpoch = false
		}
		for n := range h.vers {
			names[n] = true
		}
	}
	res := Heap{vers: map[string]string{}, epoch: first.epoch}
	if !sameEpoch {
		// different havoc epochs: the merged heap is a new epoch; every name known anywhere is merged
		*fx.epochCtr++
		res.epoch = *fx.epochCtr
		for n := range fx.e.heapSort {
			names[n] = true
		}
	}
	var ns []string
	for n := range names {
		ns = append(ns, n)
	}
	sort.Strings(ns)
	for _, n := range ns {
		srt := fx.e.heapSort[n]
		var vs []string
		same := true
		for _, e := range edges {
			h := fx.heapOut[e.pred]
			vs = append(vs, fx.heapVar(&h, n, srt))
			if vs[len(vs)-1] != vs[0] {
				same = false
			}
		}
		if same && sameEpoch {
			if _, ok := first.vers[n]; ok {
				res.vers[n] = vs[0]
			}
			continue
		}
		if same {
			res.vers[n] = vs[0]
			continue
		}
		m := fx.c.fresh(n, srt)
		for i, e := range edges {
			fx.c.assert(sImp(e.cond, sEq(m, vs[i])))
		}
		res.vers[n] = m
	}
	return res
}

// heap variables that an instruction may write; all=true if unknown
func (fx *FnExec) instrMods(in ssa.Instruction, mods map[string]bool) (all bool) {
	switch x := in.(type) {
	case *ssa.Store:
		return fx.addrMods(x.Addr, mods)
	case *ssa.MapUpdate:
		mt := x.Map.Type()
		for _, n := range fx.mapHeapNames(mt) {
			mods[n] = true
		}
		return false
	case *ssa.Next:
		if rng, ok := x.Iter.(*ssa.Range); ok {
			if n, srt, ok := fx.iterSeenName(rng); ok {
				mods[n] = true
				fx.e.heapSort[n] = srt
			}
		}
		return false
	case *ssa.Alloc, *ssa.MakeMap, *ssa.MakeClosure, *ssa.MakeInterface, *ssa.MakeSlice:
		mods["$alloc"] = true
		if a, ok := x.(*ssa.Alloc); ok {
			fx.typeMods(elemOf(a.Type()), mods)
		}
		if m, ok := x.(*ssa.MakeMap); ok {
			for _, n := range fx.mapHeapNames(m.Type()) {
				mods[n] = true
			}
		}
		return false
	case ssa.CallInstruction:
		if _, isGo := x.(*ssa.Go); isGo {
			return false
		}
		if _, isDefer := x.(*ssa.Defer); isDefer {
			return false
		}
		return fx.callMods(x.Common(), mods)
	case *ssa.RunDefers:
		for _, d := range fx.allDefers() {
			if fx.callMods(d.Common(), mods) {
				return true
			}
		}
	case *ssa.Select, *ssa.Send:
		return true
	}
	return false
}

func (fx *FnExec) allDefers() []*ssa.Defer {
	var out []*ssa.Defer
	for _, b := range fx.fn.Blocks {
		for _, in := range b.Instrs {
			if d, ok := in.(*ssa.Defer); ok {
				out = append(out, d)
			}
		}
	}
	return out
}

// typeMods adds every heap variable that holds part of a value of type t stored behind a pointer
func (fx *FnExec) typeMods(t types.Type, mods map[string]bool) {
	if t == nil {
		return
	}
	if st, ok := fx.structOf(t); ok {
		for i := 0; i < st.NumFields(); i++ {
			f := st.Field(i)
			if _, ok := fx.structOf(f.Type()); ok {
				fx.typeMods(f.Type(), mods)
				continue
			}
			for _, l := range fx.e.leaves(f.Type()) {
				n := fieldHeapName(t, f, l.Path)
				mods[n] = true
				if _, ok := fx.e.heapSort[n]; !ok {
					fx.e.heapSort[n] = arraySort("Int", l.Sort)
				}
			}
		}
		return
	}
	for _, l := range fx.e.leaves(t) {
		n := cellName(t, l.Path)
		mods[n] = true
		if _, ok := fx.e.heapSort[n]; !ok {
			fx.e.heapSort[n] = arraySort("Int", l.Sort)
		}
		for _, c := range fx.e.escaping[typeKey(t)] {
			st, _ := fx.structOf(c.owner)
			fn := fieldHeapName(c.owner, st.Field(c.idx), l.Path)
			mods[fn] = true
			if _, ok := fx.e.heapSort[fn]; !ok {
				fx.e.heapSort[fn] = arraySort("Int", l.Sort)
			}
		}
	}
}

func (fx *FnExec) addrMods(addr ssa.Value, mods map[string]bool) bool {
	if ia, ok := addr.(*ssa.IndexAddr); ok {
		if ms, ok := ia.X.(*ssa.MakeSlice); ok && mutSliceCandidate(ms) {
			m := &mslice{name: ms.Name(), et: elemOf(ms.Type())}
			for _, l := range fx.e.leaves(m.et) {
				n := fx.msliceLeafName(m, l.Path)
				mods[n] = true
				fx.e.heapSort[n] = arraySort("Int", l.Sort)
			}
			return false
		}
		if n := fx.bufNameOf(ia.X); n != "" {
			mods[n] = true
			fx.e.heapSort[n] = "Str"
			return false
		}
	}
	// stores into non-escaping locals
	if base, path, t, ok := fx.localPath(addr); ok {
		for _, l := range fx.e.leaves(t) {
			p := path
			if l.Path != "" {
				if p != "" {
					p += "."
				}
				p += l.Path
			}
			n := localLeafName(base, p)
			mods[n] = true
			if _, ok := fx.e.heapSort[n]; !ok {
				fx.e.heapSort[n] = l.Sort
			}
		}
		return false
	}
	switch a := addr.(type) {
	case *ssa.FieldAddr:
		owner := elemOf(a.X.Type())
		st, ok := fx.structOf(owner)
		if !ok {
			return true
		}
		f := st.Field(a.Field)
		if _, ok := fx.structOf(f.Type()); ok {
			fx.typeMods(f.Type(), mods)
			return false
		}
		for _, l := range fx.e.leaves(f.Type()) {
			n := fieldHeapName(owner, f, l.Path)
			mods[n] = true
			if _, ok := fx.e.heapSort[n]; !ok {
				fx.e.heapSort[n] = arraySort("Int", l.Sort)
			}
		}
		for _, mf := range fx.e.cs.Models {
			if mf.Field == f.Name() && ownerKey(owner) == shortPkg(mf.PkgPath)+"."+mf.Type {
				mods["ghost."+mf.Ghost] = true
			}
		}
		return false
	case *ssa.Global:
		for _, l := range fx.e.leaves(elemOf(a.Type())) {
			n := globalName(a, l.Path)
			mods[n] = true
			if _, ok := fx.e.heapSort[n]; !ok {
				fx.e.heapSort[n] = l.Sort
			}
		}
		return false
	case *ssa.IndexAddr:
		return false // slice element stores are abstracted (reported)
	}
	fx.typeMods(elemOf(addr.Type()), mods)
	return false
}

func (fx *FnExec) mapHeapNames(mt types.Type) []string {
	m, ok := under(mt).(*types.Map)
	if !ok {
		return nil
	}
	k := "M." + typeKey(m.Key()) + "." + typeKey(m.Elem())
	ks := fx.mapKeySort(m.Key())
	names := []string{k + ".dom"}
	fx.e.heapSort[k+".dom"] = arraySort("Int", arraySort(ks, "Bool"))
	for _, l := range fx.e.leaves(m.Elem()) {
		n := k + ".val"
		if l.Path != "" {
			n += "." + l.Path
		}
		names = append(names, n)
		fx.e.heapSort[n] = arraySort("Int", arraySort(ks, l.Sort))
	}
	names = append(names, k+".len")
	fx.e.heapSort[k+".len"] = arraySort("Int", "Int")
	return names
}

func (fx *FnExec) mapKeySort(kt types.Type) string {
	ls := fx.e.leaves(kt)
	if len(ls) == 1 {
		return ls[0].Sort
	}
	return "Int" // interface keys: payload only
}

func (fx *FnExec) mapKeyTerm(kt types.Type, k Val) string {
	if len(k.L) == 1 {
		return k.L[0]
	}
	if isInterface(kt) {
		return k.L[1]
	}
	return k.L[0]
}

// callMods: which heap variables may a call write
func (fx *FnExec) callMods(cc *ssa.CallCommon, mods map[string]bool) bool {
	mods["$alloc"] = true
	for _, a := range cc.Args {
		if n := fx.bufNameOf(a); n != "" {
			mods[n] = true
			fx.e.heapSort[n] = "Str"
		}
	}
	if b, ok := cc.Value.(*ssa.Builtin); ok {
		_ = b
		if b.Name() == "delete" {
			for _, n := range fx.mapHeapNames(cc.Args[0].Type()) {
				mods[n] = true
			}
		}
		return false
	}
	con, _ := fx.calleeContract(cc)
	if con == nil {
		if fx.calleeIsPure(cc) {
			return false
		}
		return true
	}
	allMod := con.ModAll
	for _, m := range con.Mod {
		names, all := fx.modTargetNames(con, cc, m)
		if all {
			allMod = true
			continue
		}
		for _, n := range names {
			// private ghosts named next to `*` are recorded too: `*` alone does not cover them
			if !allMod || strings.HasPrefix(n, "ghost.") || fx.isImmutable(n) {
				mods[n] = true
			}
		}
	}
	if allMod {
		// re-scan: names listed before the `*` were skipped above only if not ghosts
		for _, m := range con.Mod {
			if names, all := fx.modTargetNames(con, cc, m); !all {
				for _, n := range names {
					if strings.HasPrefix(n, "ghost.") || fx.isImmutable(n) {
						mods[n] = true
					}
				}
			}
		}
	}
	return allMod
}

// localPath: is addr (an Alloc or a FieldAddr chain on one) inside a non-escaping local?
func (fx *FnExec) localPath(addr ssa.Value) (base, path string, t types.Type, ok bool) {
	switch a := addr.(type) {
	case *ssa.Alloc:
		if !nonEscaping(a, 0) {
			return "", "", nil, false
		}
		return fx.localBase(a), "", elemOf(a.Type()), true
	case *ssa.FieldAddr:
		b, p, bt, ok := fx.localPath(a.X)
		if !ok {
			return "", "", nil, false
		}
		st, isS := fx.structOf(bt)
		if !isS {
			return "", "", nil, false
		}
		f := st.Field(a.Field)
		if p != "" {
			p += "."
		}
		return b, p + f.Name(), f.Type(), true
	}
	return "", "", nil, false
}

func (fx *FnExec) localBase(a *ssa.Alloc) string {
	n := a.Comment
	if n == "" {
		n = "tmp"
	}
	return fmt.Sprintf("L.%s.%s", n, a.Name())
}

// isByteSlice reports []byte (or a named type with that underlying type)
func isByteSlice(t types.Type) bool {
	if !isSlice(t) {
		return false
	}
	et := elemOf(t)
	return typeKey(et) == "byte" || typeKey(et) == "uint8"
}

// mslice: make([]T, n) whose elements are assigned by index before the slice is used as a value. Its content lives in
// local array variables L.ms.<name>.<leaf>; using the slice as a value takes a snapshot (slices are immutable values).
type mslice struct {
	name string
	len  string
	et   types.Type
}

// mutSliceCandidate: every use of the made slice is an element address (stored to / loaded from), len/cap, a return,
// or a debug reference; and no element store can follow a use as a value on any path (checked dynamically: see store)
func mutSliceCandidate(x *ssa.MakeSlice) bool {
	if isByteSlice(x.Type()) || x.Referrers() == nil {
		return false
	}
	stores := 0
	for _, r := range *x.Referrers() {
		switch u := r.(type) {
		case *ssa.IndexAddr:
			if u.X != ssa.Value(x) || u.Referrers() == nil {
				return false
			}
			for _, rr := range *u.Referrers() {
				switch w := rr.(type) {
				case *ssa.Store:
					if w.Addr != ssa.Value(u) {
						return false
					}
					stores++
				case *ssa.UnOp, *ssa.DebugRef:
				default:
					return false
				}
			}
		case *ssa.Return, *ssa.DebugRef:
		case *ssa.Call:
			if b, ok := u.Call.Value.(*ssa.Builtin); !ok || (b.Name() != "len" && b.Name() != "cap") {
				return false
			}
		default:
			return false
		}
	}
	return stores > 0
}

func (fx *FnExec) msliceLeafName(m *mslice, path string) string {
	return "L.ms." + m.name + "." + path
}

func (fx *FnExec) materializeMslice(t types.Type, m *mslice) Val {
	out := Val{T: t, L: []string{tFalse, m.len}}
	for _, l := range fx.e.leaves(m.et) {
		out.L = append(out.L, fx.heapVar(&fx.cur, fx.msliceLeafName(m, l.Path), arraySort("Int", l.Sort)))
	}
	return out
}

// materializeBuf: the current content of a buffer view as an ordinary (immutable) []byte value
func (fx *FnExec) materializeBuf(t types.Type, b *bufRef) Val {
	cur := fx.heapVar(&fx.cur, b.name, "Str")
	arr := fx.c.fresh("bufsnap", arraySort("Int", "Int"))
	content := cur
	if b.off != "0" || b.len != app("str_len", cur) {
		content = app("str_sub", cur, b.off, sAdd(b.off, b.len))
	}
	fx.assume(sEq(app("bytes_str", arr, b.len), content))
	return Val{T: t, L: []string{tFalse, b.len, arr}}
}

func (fx *FnExec) bufSet(b *bufRef, idx, v string) {
	cur := fx.heapVar(&fx.cur, b.name, "Str")
	fx.heapSet(&fx.cur, b.name, "Str", app("str_set", cur, sAdd(b.off, idx), v))
}

func (fx *FnExec) bufSplice(b *bufRef, t string) {
	cur := fx.heapVar(&fx.cur, b.name, "Str")
	fx.heapSet(&fx.cur, b.name, "Str", app("str_splice", cur, b.off, t))
}

// bufNameOf: the buffer variable a (possibly re-sliced) local byte buffer value refers to, statically
func (fx *FnExec) bufNameOf(v ssa.Value) string {
	switch x := v.(type) {
	case *ssa.MakeSlice:
		if isByteSlice(x.Type()) {
			return "L.buf." + x.Name()
		}
	case *ssa.Alloc:
		if _, ok := byteArrayBuffer(x); ok {
			return "L.buf." + x.Name()
		}
	case *ssa.Slice:
		return fx.bufNameOf(x.X)
	}
	return ""
}
