package main

import (
	"fmt"
	"go/types"
	"math/big"
	"sort"
	"strings"

	"golang.org/x/tools/go/ssa"
)

// ---------------------------------------------------------------------------
// Flattening of Go types into SMT leaves
// ---------------------------------------------------------------------------

type Leaf struct {
	Path string
	Sort string
	T    types.Type // go type of the leaf where that is meaningful (ints: range)
}

func unalias(t types.Type) types.Type { return types.Unalias(t) }

func under(t types.Type) types.Type {
	t = unalias(t)
	if tp, ok := t.(*types.TypeParam); ok {
		_ = tp
		return t
	}
	return t.Underlying()
}

func isTypeParam(t types.Type) bool {
	_, ok := unalias(t).(*types.TypeParam)
	return ok
}

func isInterface(t types.Type) bool {
	if isTypeParam(t) {
		return false
	}
	_, ok := under(t).(*types.Interface)
	return ok
}

func isStruct(t types.Type) bool {
	if isTypeParam(t) {
		return false
	}
	_, ok := under(t).(*types.Struct)
	return ok
}

func isPointer(t types.Type) bool {
	if isTypeParam(t) {
		return false
	}
	_, ok := under(t).(*types.Pointer)
	return ok
}

func isSlice(t types.Type) bool {
	if isTypeParam(t) {
		return false
	}
	_, ok := under(t).(*types.Slice)
	return ok
}

func isString(t types.Type) bool {
	if isTypeParam(t) {
		return false
	}
	b, ok := under(t).(*types.Basic)
	return ok && b.Info()&types.IsString != 0
}

func isInteger(t types.Type) bool {
	if isTypeParam(t) {
		return false
	}
	b, ok := under(t).(*types.Basic)
	return ok && b.Info()&types.IsInteger != 0
}

func isFloat(t types.Type) bool {
	if isTypeParam(t) {
		return false
	}
	b, ok := under(t).(*types.Basic)
	return ok && b.Info()&types.IsFloat != 0
}

func isBool(t types.Type) bool {
	if isTypeParam(t) {
		return false
	}
	b, ok := under(t).(*types.Basic)
	return ok && b.Info()&types.IsBoolean != 0
}

func elemOf(t types.Type) types.Type {
	switch u := under(t).(type) {
	case *types.Pointer:
		return u.Elem()
	case *types.Slice:
		return u.Elem()
	case *types.Array:
		return u.Elem()
	case *types.Map:
		return u.Elem()
	}
	return nil
}

// leaves of a *value* of type t
func (e *Engine) leaves(t types.Type) []Leaf {
	return e.leavesD(t, 0)
}

func (e *Engine) leavesD(t types.Type, depth int) []Leaf {
	if depth > 12 {
		return []Leaf{{Path: "", Sort: "Int", T: t}}
	}
	if isTypeParam(t) {
		return []Leaf{{Path: "", Sort: "Int", T: nil}}
	}
	switch u := under(t).(type) {
	case *types.Basic:
		switch {
		case u.Info()&types.IsBoolean != 0:
			return []Leaf{{Sort: "Bool", T: t}}
		case u.Info()&types.IsInteger != 0:
			return []Leaf{{Sort: "Int", T: t}}
		case u.Info()&types.IsFloat != 0:
			return []Leaf{{Sort: "Real", T: t}}
		case u.Info()&types.IsString != 0:
			return []Leaf{{Sort: "Str", T: t}}
		case u.Kind() == types.UnsafePointer:
			return []Leaf{{Sort: "Int", T: nil}}
		case u.Kind() == types.UntypedNil:
			return []Leaf{{Sort: "Int", T: nil}}
		}
		return []Leaf{{Sort: "Int", T: nil}}
	case *types.Pointer, *types.Map, *types.Chan, *types.Signature:
		return []Leaf{{Sort: "Int", T: nil}}
	case *types.Interface:
		return []Leaf{{Path: "typ", Sort: "Int"}, {Path: "val", Sort: "Int"}}
	case *types.Slice:
		out := []Leaf{{Path: "nil", Sort: "Bool"}, {Path: "len", Sort: "Int"}}
		for _, l := range e.leavesD(u.Elem(), depth+1) {
			out = append(out, Leaf{Path: "arr." + l.Path, Sort: arraySort("Int", l.Sort), T: nil})
		}
		return out
	case *types.Array:
		var out []Leaf
		for _, l := range e.leavesD(u.Elem(), depth+1) {
			out = append(out, Leaf{Path: "arr." + l.Path, Sort: arraySort("Int", l.Sort)})
		}
		return out
	case *types.Struct:
		var out []Leaf
		for i := 0; i < u.NumFields(); i++ {
			f := u.Field(i)
			for _, l := range e.leavesD(f.Type(), depth+1) {
				p := f.Name()
				if l.Path != "" {
					p += "." + l.Path
				}
				out = append(out, Leaf{Path: p, Sort: l.Sort, T: l.T})
			}
		}
		return out
	case *types.Tuple:
		var out []Leaf
		for i := 0; i < u.Len(); i++ {
			for _, l := range e.leavesD(u.At(i).Type(), depth+1) {
				out = append(out, Leaf{Path: fmt.Sprintf("%d.%s", i, l.Path), Sort: l.Sort, T: l.T})
			}
		}
		return out
	}
	return []Leaf{{Sort: "Int"}}
}

func (e *Engine) nleaves(t types.Type) int { return len(e.leaves(t)) }

// typeKey names a type for heap-array naming
func typeKey(t types.Type) string {
	t = unalias(t)
	switch u := t.(type) {
	case *types.Named:
		o := u.Origin().Obj()
		if o.Pkg() != nil {
			return o.Pkg().Name() + "." + o.Name()
		}
		return o.Name()
	case *types.Pointer:
		return "*" + typeKey(u.Elem())
	case *types.Slice:
		return "[]" + typeKey(u.Elem())
	case *types.Basic:
		return u.Name()
	case *types.TypeParam:
		return "$T"
	case *types.Struct:
		var parts []string
		for i := 0; i < u.NumFields(); i++ {
			parts = append(parts, u.Field(i).Name())
		}
		return "struct{" + strings.Join(parts, ",") + "}"
	case *types.Interface:
		if u.NumMethods() == 0 {
			return "any"
		}
		return "iface" + fmt.Sprint(u.NumMethods())
	case *types.Map:
		return "map[" + typeKey(u.Key()) + "]" + typeKey(u.Elem())
	}
	return strings.NewReplacer(" ", "_", "(", "_", ")", "_").Replace(t.String())
}

// ---------------------------------------------------------------------------
// Symbolic values
// ---------------------------------------------------------------------------

type LocKind int

const (
	LField  LocKind = iota // field (non-struct) of struct at address Base
	LCell                  // *p where p is a pointer to a non-struct type
	LGlobal                // package-level variable
	LElem                  // element of a slice value (read-only)
	LAElem                 // element of an array stored in a location
	LLocal                 // non-escaping local variable (or a field path inside one)
	LBufElem               // one byte of a local byte buffer
	LMutElem               // one element of a local element-wise mutated slice
)

type Loc struct {
	Kind   LocKind
	Base   string       // LField: struct address; LCell: pointer term
	Owner  types.Type   // LField: struct type (named if possible)
	Field  int          // LField: field index
	ElemT  types.Type   // type of the stored value
	Global *ssa.Global  // LGlobal
	Slice  *Val         // LElem
	SliceV ssa.Value    // LElem: the SSA value of the slice (for element updates of purely local slices)
	Idx    string       // LElem
	Buf    *bufRef      // LBufElem
	Ms     *mslice      // LMutElem
	Local  string       // LLocal: variable name (heap var prefix)
	LocalT types.Type   // LLocal: type stored at this path
}

type FnVal struct {
	Fn       *ssa.Function
	Bindings []Val
}

type Val struct {
	T   types.Type
	L   []string
	Loc *Loc   // address-of values that are not plain Ints
	Fn  *FnVal // statically known function value
}

func (v Val) one() string {
	if len(v.L) != 1 {
		panic(fmt.Sprintf("value of type %v has %d leaves, expected 1", v.T, len(v.L)))
	}
	return v.L[0]
}

// ---------------------------------------------------------------------------
// integer ranges
// ---------------------------------------------------------------------------

func intRange(t types.Type) (lo, hi *big.Int, ok bool) {
	if t == nil || isTypeParam(t) {
		return nil, nil, false
	}
	b, isb := under(t).(*types.Basic)
	if !isb || b.Info()&types.IsInteger == 0 {
		return nil, nil, false
	}
	bits := 64
	signed := true
	switch b.Kind() {
	case types.Int8:
		bits = 8
	case types.Int16:
		bits = 16
	case types.Int32:
		bits = 32
	case types.Int64, types.Int:
		bits = 64
	case types.Uint8:
		bits, signed = 8, false
	case types.Uint16:
		bits, signed = 16, false
	case types.Uint32:
		bits, signed = 32, false
	case types.Uint64, types.Uint, types.Uintptr:
		bits, signed = 64, false
	case types.UntypedInt, types.UntypedRune:
		return nil, nil, false
	}
	one := big.NewInt(1)
	if signed {
		hi = new(big.Int).Lsh(one, uint(bits-1))
		lo = new(big.Int).Neg(hi)
		hi.Sub(hi, one)
	} else {
		lo = big.NewInt(0)
		hi = new(big.Int).Lsh(one, uint(bits))
		hi.Sub(hi, one)
	}
	return lo, hi, true
}

func rangeFact(term string, t types.Type) string {
	lo, hi, ok := intRange(t)
	if !ok {
		return tTrue
	}
	return sAnd(sLe(bigLit(lo), term), sLe(term, bigLit(hi)))
}

// wrap returns term reduced into the range of t, assuming it left the range at most once.
func wrapOnce(term string, t types.Type) string {
	lo, hi, ok := intRange(t)
	if !ok {
		return term
	}
	span := new(big.Int).Sub(hi, lo)
	span.Add(span, big.NewInt(1))
	return sIte(app(">", term, bigLit(hi)), sSub(term, bigLit(span)),
		sIte(sLt(term, bigLit(lo)), sAdd(term, bigLit(span)), term))
}

// wrapMod reduces an arbitrary integer into the range of t
func wrapMod(term string, t types.Type) string {
	lo, hi, ok := intRange(t)
	if !ok {
		return term
	}
	span := new(big.Int).Sub(hi, lo)
	span.Add(span, big.NewInt(1))
	m := app("mod", term, bigLit(span))
	if lo.Sign() == 0 {
		return m
	}
	return sIte(app(">", m, bigLit(hi)), sSub(m, bigLit(span)), m)
}

// ---------------------------------------------------------------------------
// Type table for interfaces (closed world over the loaded packages)
// ---------------------------------------------------------------------------

type TypeTable struct {
	ids   map[string]int
	types []types.Type // by id-1
}

func (tt *TypeTable) id(t types.Type) int {
	t = unalias(t)
	// canonicalise instantiated generics to their origin
	k := tt.key(t)
	if id, ok := tt.ids[k]; ok {
		return id
	}
	tt.types = append(tt.types, t)
	id := len(tt.types)
	tt.ids[k] = id
	return id
}

func (tt *TypeTable) key(t types.Type) string {
	t = unalias(t)
	switch u := t.(type) {
	case *types.Pointer:
		return "*" + tt.key(u.Elem())
	case *types.Named:
		o := u.Origin().Obj()
		if o.Pkg() != nil {
			return o.Pkg().Path() + "." + o.Name()
		}
		return o.Name()
	}
	return types.TypeString(t, nil)
}

func (tt *TypeTable) sortedIds() []int {
	var out []int
	for _, v := range tt.ids {
		out = append(out, v)
	}
	sort.Ints(out)
	return out
}
