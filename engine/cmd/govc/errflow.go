package main

import (
	"fmt"
	"go/token"
	"go/types"

	"golang.org/x/tools/go/ssa"
)

// ---------------------------------------------------------------------------
// Ghost protocol `errflow` (C07): a ghost boolean $fail is set whenever a call
// returns a non-nil error (unless the contract declares the call site as
// absorbing it, with a reason). At every return: $fail ==> an error is
// returned, or the declared error holder holds an error.
// ---------------------------------------------------------------------------

func isErrorType(t types.Type) bool {
	if t == nil {
		return false
	}
	n, ok := unalias(t).(*types.Named)
	return ok && n.Obj().Pkg() == nil && n.Obj().Name() == "error"
}

func (fx *FnExec) trackErr(result Val, resT *types.Tuple, key string, pos token.Pos) {
	rs := splitResults(fx, result, resT)
	sn := shortName(key)
	ord := fx.counters["errcall:"+key] + 1
	fx.counters["errcall:"+key] = ord
	for i, r := range rs {
		if !isErrorType(resT.At(i).Type()) {
			continue
		}
		if _, ok := fx.con.Absorbs[sn]; ok {
			continue
		}
		if _, ok := fx.con.Absorbs[fmt.Sprintf("%s@%d", sn, ord)]; ok {
			continue
		}
		cur := fx.heapVar(&fx.cur, "$fail", "Bool")
		fx.heapSet(&fx.cur, "$fail", "Bool", sOr(cur, sAnd(fx.curReach, sNot(sEq(r.L[0], "0")))))
	}
}

func (fx *FnExec) errflowAtReturn(results []Val, x *ssa.Return) {
	fail := fx.heapVar(&fx.cur, "$fail", "Bool")
	var outs []string
	for _, r := range results {
		if isErrorType(r.T) {
			outs = append(outs, sNot(sEq(r.L[0], "0")))
		}
	}
	if h := fx.con.Flags["errholder"]; h != "" {
		env := fx.specEnv(&fx.cur, &fx.entry, results)
		t, err := env.evalBool(h)
		if err == nil {
			outs = append(outs, t)
		} else {
			fx.abstract("errholder expression: " + err.Error())
		}
	}
	goal := sImp(fail, sOr(outs...))
	name := fmt.Sprintf("ret%d", fx.retOrdinal(x))
	o := fx.oblige("errflow", name, goal, "every failure reaches the caller: a non-nil error from a callee implies a non-nil error result", x.Pos())
	o.Props = fx.con.Props
}
