package main

import (
	"encoding/json"
	"fmt"
	"os"
)

// tryReplay replays a counterexample against the real code when a driver exists for the obligation.
func tryReplay(e *Engine, prop string, v *Verdict) map[string]any {
	return map[string]any{"reproduced": false, "reason": "no replay driver for this obligation class; the model is over the function's inputs as listed"}
}

func cmdReplay(args []string) int {
	if len(args) < 1 {
		fmt.Fprintln(os.Stderr, "usage: govc replay <file>")
		return 2
	}
	b, err := os.ReadFile(args[0])
	if err != nil {
		fmt.Fprintln(os.Stderr, err)
		return 2
	}
	os.Stdout.Write(b)
	fmt.Println()
	// a failing case of a bounded stand-in carries its input: run exactly that case again on the current tree
	var rf struct {
		Property string `json:"property"`
		Checker  string `json:"checker"`
		Failure  string `json:"failure"`
	}
	if json.Unmarshal(b, &rf) == nil && rf.Checker == "bounded:SetLinks" && rf.Failure != "" {
		os.Setenv("VERIF_BOUNDED_ONLY", rf.Failure)
		x := runBoundedGoTest(rf.Property, "thorough", rf.Checker, "boltz", "c05_setlinks_test.go", "^TestVerifBoundedSetLinks$", "replay of one case")
		if len(x.Failures) > 0 {
			for _, f := range x.Failures {
				fmt.Println("REPRODUCED on the current tree:", f)
			}
			return 1
		}
		fmt.Printf("not reproduced on the current tree (%d case(s) run)\n", x.Cases)
	}
	return 0
}
