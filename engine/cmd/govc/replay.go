package main

import (
	"fmt"
	"os"
)

// tryReplay replays a counterexample against the real code when a driver exists for the obligation.
func tryReplay(e *Engine, prop string, v *Verdict) map[string]any {
	return map[string]any{"reproduced": false, "reason": "no replay driver for this obligation class; the model is over the function's inputs as listed"}
}

func cmdReplay(args []string) int {
	if len(args) < 1 {
		fmt.Fprintln(os.Stderr, "usage: govc replay <file>")
		return 2
	}
	b, err := os.ReadFile(args[0])
	if err != nil {
		fmt.Fprintln(os.Stderr, err)
		return 2
	}
	os.Stdout.Write(b)
	fmt.Println()
	return 0
}
