package main

import (
	"encoding/json"
	"fmt"
	"go/types"
	"os"
	"os/exec"
	"path/filepath"
	"sort"
	"strings"

	"golang.org/x/tools/go/ssa"
)

// tryReplay replays a counterexample against the real code when a driver exists for the obligation.
func tryReplay(e *Engine, prop string, v *Verdict) (rep map[string]any) {
	// a problem inside the replay driver must never change the verdict: the violation is reported either way
	defer func() {
		if r := recover(); r != nil {
			rep = map[string]any{"reproduced": false, "reason": fmt.Sprintf("replay driver failed: %v", r)}
		}
	}()
	if os.Getenv("VERIF_NO_REPLAY") == "" {
		if rep := replayValues(e, prop, v); rep != nil {
			return rep
		}
	}
	return map[string]any{"reproduced": false, "reason": "no replay driver for this obligation class; the model is over the function's inputs as listed"}
}

func cmdReplay(args []string) int {
	if len(args) < 1 {
		fmt.Fprintln(os.Stderr, "usage: govc replay <file>")
		return 2
	}
	b, err := os.ReadFile(args[0])
	if err != nil {
		fmt.Fprintln(os.Stderr, err)
		return 2
	}
	os.Stdout.Write(b)
	fmt.Println()
	// a failing case of a bounded stand-in carries its input: run exactly that case again on the current tree
	var rf struct {
		Property string `json:"property"`
		Checker  string `json:"checker"`
		Failure  string `json:"failure"`
	}
	var rv struct {
		Replay struct {
			Driver  string `json:"driver"`
			Harness string `json:"harness"`
			Package string `json:"package"`
			Failing struct {
				Case  int      `json:"case"`
				Input []string `json:"input"`
				Real  []string `json:"real_results"`
			} `json:"failing_input"`
			Reproduced bool `json:"reproduced"`
		} `json:"replay"`
	}
	if json.Unmarshal(b, &rv) == nil && rv.Replay.Driver == "replay:values" && rv.Replay.Reproduced && rv.Replay.Harness != "" {
		// run the recorded harness again on the current tree and show what the real function returns for the failing input
		repo := repoDir()
		work := filepath.Dir(rv.Replay.Harness)
		ov := map[string]map[string]string{"Replace": {filepath.Join(repo, rv.Replay.Package, "zz_verif_replay_test.go"): rv.Replay.Harness}}
		ob, _ := json.Marshal(ov)
		ovPath := filepath.Join(work, "overlay-rerun.json")
		os.WriteFile(ovPath, ob, 0o644)
		cmd := exec.Command("go", "test", "-tags", "verif", "-overlay", ovPath, "-vet=off", "-count=1", "-timeout", "120s", "-v", "-run", "^TestVerifReplay$", "./"+rv.Replay.Package+"/")
		cmd.Dir = repo
		cmd.Env = append(os.Environ(), "GOFLAGS=-mod=mod", "GOPROXY=off", "GOSUMDB=off", "GOTOOLCHAIN=local")
		outB, _ := cmd.CombinedOutput()
		for _, m := range reReplayLine.FindAllStringSubmatch(string(outB), -1) {
			if m[1] == fmt.Sprint(rv.Replay.Failing.Case) {
				fmt.Printf("input %v\nrecorded real result %v\nreal result on the current tree: %s\n", rv.Replay.Failing.Input, rv.Replay.Failing.Real, m[2])
				return 0
			}
		}
		fmt.Println("the recorded harness did not run on the current tree:", truncate(string(outB), 600))
		return 0
	}
	if json.Unmarshal(b, &rf) == nil && rf.Checker == "bounded:SetLinks" && rf.Failure != "" {
		os.Setenv("VERIF_BOUNDED_ONLY", rf.Failure)
		x := runBoundedGoTest(rf.Property, "thorough", rf.Checker, "boltz", "c05_setlinks_test.go", "^TestVerifBoundedSetLinks$", "replay of one case")
		if len(x.Failures) > 0 {
			for _, f := range x.Failures {
				fmt.Println("REPRODUCED on the current tree:", f)
			}
			return 1
		}
		fmt.Printf("not reproduced on the current tree (%d case(s) run)\n", x.Cases)
	}
	return 0
}

// ---------------------------------------------------------------------------
// replay of counterexamples on the real code (functions over plain values only)
// ---------------------------------------------------------------------------

// plainKind: how a parameter or result of a "plain value" type is passed to the real function in a replay
//   "bool" "int" "string" "bytes" "ptr:<kind>" "error" ""(not plain)
func plainKind(t types.Type) string {
	if isTypeParam(t) {
		return ""
	}
	switch u := under(t).(type) {
	case *types.Basic:
		switch {
		case u.Info()&types.IsBoolean != 0:
			return "bool"
		case u.Info()&types.IsInteger != 0:
			return "int"
		case u.Info()&types.IsString != 0:
			return "string"
		}
	case *types.Slice:
		if b, ok := under(u.Elem()).(*types.Basic); ok && b.Kind() == types.Uint8 {
			return "bytes"
		}
		if b, ok := under(u.Elem()).(*types.Basic); ok && b.Info()&types.IsString != 0 {
			return "strings"
		}
	case *types.Pointer:
		k := plainKind(u.Elem())
		if k == "bool" || k == "int" || k == "string" {
			return "ptr:" + k
		}
	case *types.Interface:
		if types.TypeString(t, nil) == "error" {
			return "error"
		}
	}
	return ""
}

// replayable: the function takes and returns plain values only, so a model of its parameters is a complete input
func replayable(fn *ssa.Function) bool {
	if fn == nil || fn.Parent() != nil || fn.Object() == nil || fn.TypeParams().Len() > 0 {
		return false
	}
	sig := fn.Signature
	if sig.Recv() != nil {
		k := plainKind(sig.Recv().Type())
		if k == "" || k == "error" || strings.HasPrefix(k, "ptr:") {
			return false
		}
	}
	for i := 0; i < sig.Params().Len(); i++ {
		if k := plainKind(sig.Params().At(i).Type()); k == "" || k == "error" {
			return false
		}
	}
	if sig.Variadic() {
		return false
	}
	for i := 0; i < sig.Results().Len(); i++ {
		if plainKind(sig.Results().At(i).Type()) == "" {
			return false
		}
	}
	return true
}

func cmdReplayable(args []string) int {
	e, err := loadEngine(repoDir(), filepath.Join(verifDir, "spec", "trusted"))
	if err != nil {
		fmt.Fprintln(os.Stderr, err)
		return 2
	}
	var keys []string
	for k, c := range e.contracts {
		if c.Trusted || c.IsIface {
			continue
		}
		if fn := e.findFunction(c); fn != nil && replayable(fn) {
			keys = append(keys, fmt.Sprintf("%-60s %v %s", displayKey(k), c.Props, fn.Signature))
		}
	}
	sort.Strings(keys)
	for _, k := range keys {
		fmt.Println(k)
	}
	return 0
}
