package main

// Rename robustness. Contracts mention parameters and local variables by their source names. A refactor that only
// renames them leaves the SSA of the function unchanged; to keep such a change from raising an alarm, the names seen on
// the tree the baseline was taken from are recorded per function together with a shape hash of its SSA. When a later run
// finds the same shape but different names at the same positions, the old names used by the contracts are mapped to the
// new ones. A function whose shape changed gets no mapping (its contract has to be looked at by a person anyway).

import (
	"crypto/sha256"
	"io"
	"strings"
	"go/types"
	"encoding/json"
	"fmt"
	"os"
	"path/filepath"
	"sort"

	"golang.org/x/tools/go/ssa"
)

type namedPos struct {
	B, I int
	Name string
}

type fnNames struct {
	Shape  string     `json:"shape,omitempty"`
	Params []string   `json:"params,omitempty"`
	Free   []string   `json:"free,omitempty"`
	Named  []namedPos `json:"named,omitempty"`
	// Sig: the names in the declared signature (receiver first, "" when there is none), with SigT the parameter
	// types; kept also for interface methods, which have no body
	Sig  []string `json:"sig,omitempty"`
	SigT string   `json:"sigt,omitempty"`
}

func namesFile() string { return filepath.Join(verifDir, "baseline", "names.json") }

func shapeOf(fn *ssa.Function) string {
	hh := sha256.New()
	var h io.Writer = hh
	if d := os.Getenv("GOVC_DUMP_SHAPE"); d != "" && strings.Contains(fn.String(), d) {
		f, _ := os.Create("/tmp/shape_" + fmt.Sprint(os.Getpid()) + ".txt")
		defer f.Close()
		h = io.MultiWriter(hh, f)
	}
	for _, p := range fn.Params {
		fmt.Fprintf(h, "P %s\n", canonType(p.Type()))
	}
	for _, b := range fn.Blocks {
		fmt.Fprintf(h, "B %d %d\n", b.Index, len(b.Succs))
		for _, in := range b.Instrs {
			switch x := in.(type) {
			case *ssa.DebugRef:
				fmt.Fprintf(h, "dbg %v\n", x.IsAddr)
			case *ssa.Call:
				cn := ""
				if cc := x.Common(); cc.IsInvoke() {
					cn = cc.Method.Name()
				} else if sc := cc.StaticCallee(); sc != nil {
					cn = sc.Name()
					if i := strings.Index(cn, "["); i > 0 {
						cn = cn[:i]
					}
				}
				fmt.Fprintf(h, "call %s %s\n", cn, canonType(x.Type()))
			case *ssa.BinOp:
				fmt.Fprintf(h, "bin %s %s\n", x.Op, canonType(x.Type()))
			case *ssa.UnOp:
				fmt.Fprintf(h, "un %s %s\n", x.Op, canonType(x.Type()))
			case *ssa.FieldAddr:
				fmt.Fprintf(h, "fa %d %s\n", x.Field, canonType(x.Type()))
			case *ssa.Field:
				fmt.Fprintf(h, "f %d %s\n", x.Field, canonType(x.Type()))
			case ssa.Value:
				fmt.Fprintf(h, "%T %s\n", in, canonType(x.Type()))
			default:
				fmt.Fprintf(h, "%T\n", in)
			}
		}
	}
	return fmt.Sprintf("%x", hh.Sum(nil))[:24]
}

func namesOf(fn *ssa.Function) *fnNames {
	n := &fnNames{Shape: shapeOf(fn)}
	for _, p := range fn.Params {
		n.Params = append(n.Params, p.Name())
	}
	for _, fv := range fn.FreeVars {
		n.Free = append(n.Free, fv.Name())
	}
	for _, b := range fn.Blocks {
		for i, in := range b.Instrs {
			switch x := in.(type) {
			case *ssa.DebugRef:
				if obj := x.Object(); obj != nil {
					if v, ok := obj.(*types.Var); !ok || v.IsField() || (v.Pkg() != nil && v.Parent() == v.Pkg().Scope()) {
						continue // only local variables and parameters are subject to renaming here
					}
					n.Named = append(n.Named, namedPos{b.Index, i, obj.Name()})
				}
			case *ssa.Phi:
				if x.Comment != "" {
					n.Named = append(n.Named, namedPos{b.Index, i, x.Comment})
				}
			case *ssa.Alloc:
				if x.Comment != "" {
					n.Named = append(n.Named, namedPos{b.Index, i, x.Comment})
				}
			}
		}
	}
	return n
}

var baseNamesCache map[string]*fnNames

func loadBaseNames() map[string]*fnNames {
	if baseNamesCache != nil {
		return baseNamesCache
	}
	baseNamesCache = map[string]*fnNames{}
	if b, err := os.ReadFile(namesFile()); err == nil {
		json.Unmarshal(b, &baseNamesCache)
	}
	return baseNamesCache
}

// renamesFor: old name -> current name for locals, and the baseline's parameter names, when only names changed
type renameResult struct {
	ren    map[string]string
	params []string
}

var renameCache = map[string]*renameResult{}

func renamesFor(key string, fn *ssa.Function) (map[string]string, []string) {
	if r, ok := renameCache[key]; ok {
		return r.ren, r.params
	}
	ren, params := renamesFor1(key, fn)
	renameCache[key] = &renameResult{ren, params}
	return ren, params
}

func renamesFor1(key string, fn *ssa.Function) (map[string]string, []string) {
	base := loadBaseNames()[key]
	if base == nil || fn == nil || len(fn.Blocks) == 0 {
		return nil, nil
	}
	cur := namesOf(fn)
	if cur.Shape != base.Shape || len(cur.Named) != len(base.Named) || len(cur.Params) != len(base.Params) {
		if traceNames {
			fmt.Fprintf(os.Stderr, "NAMES %s: shape %s vs %s, named %d vs %d\n", key, cur.Shape, base.Shape, len(cur.Named), len(base.Named))
		}
		return nil, nil
	}
	ren := map[string]string{}
	bad := map[string]bool{}
	for i, o := range base.Named {
		c := cur.Named[i]
		if c.B != o.B || c.I != o.I {
			return nil, nil
		}
		if prev, ok := ren[o.Name]; ok && prev != c.Name {
			bad[o.Name] = true
		}
		ren[o.Name] = c.Name
	}
	for k, v := range ren {
		if bad[k] || k == v {
			delete(ren, k)
		}
	}
	if len(base.Free) == len(cur.Free) {
		for i, o := range base.Free {
			if o != cur.Free[i] {
				if _, have := ren[o]; !have {
					ren[o] = cur.Free[i]
				}
			}
		}
	}
	return ren, base.Params
}

// saveBaseNames records the names of the given functions (merging into the existing table)
func saveBaseNames(fns map[string]*ssa.Function) {
	tab := loadBaseNames()
	for k, fn := range fns {
		if fn != nil && len(fn.Blocks) > 0 {
			nn := namesOf(fn)
			if old := tab[k]; old != nil {
				nn.Sig, nn.SigT = old.Sig, old.SigT
			}
			tab[k] = nn
		}
	}
	keys := make([]string, 0, len(tab))
	for k := range tab {
		keys = append(keys, k)
	}
	sort.Strings(keys)
	out := map[string]*fnNames{}
	for _, k := range keys {
		out[k] = tab[k]
	}
	b, _ := json.Marshal(out)
	os.MkdirAll(filepath.Dir(namesFile()), 0o755)
	os.WriteFile(namesFile(), b, 0o644)
}

func sigNames(f *types.Func) ([]string, string) {
	sig, ok := f.Type().(*types.Signature)
	if !ok {
		return nil, ""
	}
	names := []string{""}
	if r := sig.Recv(); r != nil {
		names[0] = r.Name()
	}
	t := ""
	for i := 0; i < sig.Params().Len(); i++ {
		names = append(names, sig.Params().At(i).Name())
		t += canonType(sig.Params().At(i).Type()) + ";"
	}
	return names, t
}

// baseSigFor: the baseline's declared names (receiver first) of a contract's function if its parameter types are unchanged
func baseSigFor(key string, f *types.Func) []string {
	base := loadBaseNames()[key]
	if base == nil || f == nil || len(base.Sig) == 0 {
		if traceNames {
			fmt.Fprintf(os.Stderr, "NAMES sig %s: no baseline\n", key)
		}
		return nil
	}
	cur, t := sigNames(f)
	if t != base.SigT || len(cur) != len(base.Sig) {
		if traceNames {
			fmt.Fprintf(os.Stderr, "NAMES sig %s: %q vs %q\n", key, t, base.SigT)
		}
		return nil
	}
	return base.Sig
}

// saveBaseSigs records the declared names of every contract's function
func saveBaseSigs(e *Engine) {
	tab := loadBaseNames()
	for k, c := range e.contracts {
		if c.Obj == nil {
			continue
		}
		ent := tab[k]
		if ent == nil {
			ent = &fnNames{}
			tab[k] = ent
		}
		ent.Sig, ent.SigT = sigNames(c.Obj)
	}
}

func init() {
	if os.Getenv("GOVC_TRACE_NAMES") != "" {
		traceNames = true
	}
}

var traceNames bool

// canonType: a type's text without the parameter names of function types (renaming those is not a change of type)
func canonType(t types.Type) string {
	switch x := t.(type) {
	case *types.Signature:
		s := "func("
		for i := 0; i < x.Params().Len(); i++ {
			if i > 0 {
				s += ","
			}
			s += canonType(x.Params().At(i).Type())
		}
		if x.Variadic() {
			s += "..."
		}
		s += ")("
		for i := 0; i < x.Results().Len(); i++ {
			if i > 0 {
				s += ","
			}
			s += canonType(x.Results().At(i).Type())
		}
		return s + ")"
	case *types.Named:
		if ta := x.TypeArgs(); ta != nil && ta.Len() > 0 {
			s := x.Obj().Name()
			if x.Obj().Pkg() != nil {
				s = x.Obj().Pkg().Path() + "." + s
			}
			s += "["
			for i := 0; i < ta.Len(); i++ {
				if i > 0 {
					s += ","
				}
				s += canonType(ta.At(i))
			}
			return s + "]"
		}
		return t.String()
	case *types.Pointer:
		return "*" + canonType(x.Elem())
	case *types.Slice:
		return "[]" + canonType(x.Elem())
	case *types.Array:
		return fmt.Sprintf("[%d]%s", x.Len(), canonType(x.Elem()))
	case *types.Map:
		return "map[" + canonType(x.Key()) + "]" + canonType(x.Elem())
	case *types.Chan:
		return "chan " + canonType(x.Elem())
	case *types.Tuple:
		s := "("
		for i := 0; i < x.Len(); i++ {
			if i > 0 {
				s += ","
			}
			s += canonType(x.At(i).Type())
		}
		return s + ")"
	}
	return t.String()
}
