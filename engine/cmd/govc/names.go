package main

// Rename robustness. Contracts mention parameters and local variables by their source names. A refactor that only
// renames them leaves the SSA of the function unchanged; to keep such a change from raising an alarm, the names seen on
// the tree the baseline was taken from are recorded per function together with a shape hash of its SSA. When a later run
// finds the same shape but different names at the same positions, the old names used by the contracts are mapped to the
// new ones. A function whose shape changed gets no mapping (its contract has to be looked at by a person anyway).

import (
	"crypto/sha256"
	"encoding/json"
	"fmt"
	"os"
	"path/filepath"
	"sort"

	"golang.org/x/tools/go/ssa"
)

type namedPos struct {
	B, I int
	Name string
}

type fnNames struct {
	Shape  string     `json:"shape"`
	Params []string   `json:"params"`
	Named  []namedPos `json:"named"`
}

func namesFile() string { return filepath.Join(verifDir, "baseline", "names.json") }

func shapeOf(fn *ssa.Function) string {
	h := sha256.New()
	for _, p := range fn.Params {
		fmt.Fprintf(h, "P %s\n", p.Type())
	}
	for _, b := range fn.Blocks {
		fmt.Fprintf(h, "B %d %d\n", b.Index, len(b.Succs))
		for _, in := range b.Instrs {
			switch x := in.(type) {
			case *ssa.DebugRef:
				fmt.Fprintf(h, "dbg %v\n", x.IsAddr)
			case *ssa.Call:
				cn := ""
				if cc := x.Common(); cc.IsInvoke() {
					cn = cc.Method.Name()
				} else if sc := cc.StaticCallee(); sc != nil {
					cn = sc.Name()
				}
				fmt.Fprintf(h, "call %s %s\n", cn, x.Type())
			case *ssa.BinOp:
				fmt.Fprintf(h, "bin %s %s\n", x.Op, x.Type())
			case *ssa.UnOp:
				fmt.Fprintf(h, "un %s %s\n", x.Op, x.Type())
			case *ssa.FieldAddr:
				fmt.Fprintf(h, "fa %d %s\n", x.Field, x.Type())
			case *ssa.Field:
				fmt.Fprintf(h, "f %d %s\n", x.Field, x.Type())
			case ssa.Value:
				fmt.Fprintf(h, "%T %s\n", in, x.Type())
			default:
				fmt.Fprintf(h, "%T\n", in)
			}
		}
	}
	return fmt.Sprintf("%x", h.Sum(nil))[:24]
}

func namesOf(fn *ssa.Function) *fnNames {
	n := &fnNames{Shape: shapeOf(fn)}
	for _, p := range fn.Params {
		n.Params = append(n.Params, p.Name())
	}
	for _, b := range fn.Blocks {
		for i, in := range b.Instrs {
			switch x := in.(type) {
			case *ssa.DebugRef:
				if obj := x.Object(); obj != nil {
					n.Named = append(n.Named, namedPos{b.Index, i, obj.Name()})
				}
			case *ssa.Phi:
				if x.Comment != "" {
					n.Named = append(n.Named, namedPos{b.Index, i, x.Comment})
				}
			case *ssa.Alloc:
				if x.Comment != "" {
					n.Named = append(n.Named, namedPos{b.Index, i, x.Comment})
				}
			}
		}
	}
	return n
}

var baseNamesCache map[string]*fnNames

func loadBaseNames() map[string]*fnNames {
	if baseNamesCache != nil {
		return baseNamesCache
	}
	baseNamesCache = map[string]*fnNames{}
	if b, err := os.ReadFile(namesFile()); err == nil {
		json.Unmarshal(b, &baseNamesCache)
	}
	return baseNamesCache
}

// renamesFor: old name -> current name for locals, and the baseline's parameter names, when only names changed
type renameResult struct {
	ren    map[string]string
	params []string
}

var renameCache = map[string]*renameResult{}

func renamesFor(key string, fn *ssa.Function) (map[string]string, []string) {
	if r, ok := renameCache[key]; ok {
		return r.ren, r.params
	}
	ren, params := renamesFor1(key, fn)
	renameCache[key] = &renameResult{ren, params}
	return ren, params
}

func renamesFor1(key string, fn *ssa.Function) (map[string]string, []string) {
	base := loadBaseNames()[key]
	if base == nil || fn == nil || len(fn.Blocks) == 0 {
		return nil, nil
	}
	cur := namesOf(fn)
	if cur.Shape != base.Shape || len(cur.Named) != len(base.Named) || len(cur.Params) != len(base.Params) {
		return nil, nil
	}
	ren := map[string]string{}
	bad := map[string]bool{}
	for i, o := range base.Named {
		c := cur.Named[i]
		if c.B != o.B || c.I != o.I {
			return nil, nil
		}
		if prev, ok := ren[o.Name]; ok && prev != c.Name {
			bad[o.Name] = true
		}
		ren[o.Name] = c.Name
	}
	for k, v := range ren {
		if bad[k] || k == v {
			delete(ren, k)
		}
	}
	return ren, base.Params
}

// saveBaseNames records the names of the given functions (merging into the existing table)
func saveBaseNames(fns map[string]*ssa.Function) {
	tab := loadBaseNames()
	for k, fn := range fns {
		if fn != nil && len(fn.Blocks) > 0 {
			tab[k] = namesOf(fn)
		}
	}
	keys := make([]string, 0, len(tab))
	for k := range tab {
		keys = append(keys, k)
	}
	sort.Strings(keys)
	out := map[string]*fnNames{}
	for _, k := range keys {
		out[k] = tab[k]
	}
	b, _ := json.Marshal(out)
	os.MkdirAll(filepath.Dir(namesFile()), 0o755)
	os.WriteFile(namesFile(), b, 0o644)
}
