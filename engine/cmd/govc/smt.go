package main

import (
	"fmt"
	"math/big"
	"sort"
	"strings"
)

// ---------------------------------------------------------------------------
// SMT-LIB term construction. Terms are plain strings.
// ---------------------------------------------------------------------------

func app(op string, args ...string) string {
	if len(args) == 0 {
		return op
	}
	return "(" + op + " " + strings.Join(args, " ") + ")"
}

const tTrue = "true"
const tFalse = "false"

func sAnd(args ...string) string {
	var out []string
	for _, a := range args {
		if a == tTrue {
			continue
		}
		if a == tFalse {
			return tFalse
		}
		out = append(out, a)
	}
	if len(out) == 0 {
		return tTrue
	}
	if len(out) == 1 {
		return out[0]
	}
	return app("and", out...)
}

func sOr(args ...string) string {
	var out []string
	for _, a := range args {
		if a == tFalse {
			continue
		}
		if a == tTrue {
			return tTrue
		}
		out = append(out, a)
	}
	if len(out) == 0 {
		return tFalse
	}
	if len(out) == 1 {
		return out[0]
	}
	return app("or", out...)
}

func sNot(a string) string {
	if a == tTrue {
		return tFalse
	}
	if a == tFalse {
		return tTrue
	}
	if strings.HasPrefix(a, "(not ") && balanced(a[5:len(a)-1]) {
		return a[5 : len(a)-1]
	}
	return app("not", a)
}

func balanced(s string) bool {
	d := 0
	for _, c := range s {
		if c == '(' {
			d++
		} else if c == ')' {
			d--
			if d < 0 {
				return false
			}
		}
	}
	return d == 0
}

func sImp(a, b string) string {
	if a == tTrue {
		return b
	}
	if a == tFalse || b == tTrue {
		return tTrue
	}
	return app("=>", a, b)
}

func sIte(c, a, b string) string {
	if c == tTrue {
		return a
	}
	if c == tFalse {
		return b
	}
	if a == b {
		return a
	}
	return app("ite", c, a, b)
}

func sEq(a, b string) string {
	if a == b {
		return tTrue
	}
	return app("=", a, b)
}

func sSel(arr, idx string) string      { return app("select", arr, idx) }
func sSto(arr, idx, v string) string   { return app("store", arr, idx, v) }
func sAdd(a, b string) string          { return app("+", a, b) }
func sSub(a, b string) string          { return app("-", a, b) }
func sLt(a, b string) string           { return app("<", a, b) }
func sLe(a, b string) string           { return app("<=", a, b) }
func arraySort(idx, elem string) string { return "(Array " + idx + " " + elem + ")" }

func intLit(n int64) string {
	if n < 0 {
		// careful with MinInt64
		b := big.NewInt(n)
		b.Neg(b)
		return "(- " + b.String() + ")"
	}
	return fmt.Sprintf("%d", n)
}

func bigLit(b *big.Int) string {
	if b.Sign() < 0 {
		c := new(big.Int).Neg(b)
		return "(- " + c.String() + ")"
	}
	return b.String()
}

// smtName makes an arbitrary identifier safe as an SMT symbol.
func smtName(s string) string {
	ok := true
	for _, c := range s {
		if !(c >= 'a' && c <= 'z' || c >= 'A' && c <= 'Z' || c >= '0' && c <= '9' || strings.ContainsRune("_.!@$%^&*+-<>=/?~", c)) {
			ok = false
			break
		}
	}
	if ok && s != "" && !(s[0] >= '0' && s[0] <= '9') {
		return s
	}
	return "|" + strings.NewReplacer("|", "_", "\\", "_").Replace(s) + "|"
}

// ---------------------------------------------------------------------------
// Query context: an ordered list of declarations and assertions. An obligation
// snapshots the length of the list, so that only facts established *before*
// the obligation's program point are available to it.
// ---------------------------------------------------------------------------

type Ctx struct {
	items    []string        // declare-* and assert lines, in order
	declared map[string]bool // symbol -> declared
	nfresh   int
	strlits  map[string]string // literal -> const name
	strOrder []string
	usesStrOrd bool
}

func newCtx() *Ctx {
	return &Ctx{declared: map[string]bool{}, strlits: map[string]string{}}
}

func (c *Ctx) declare(name, sort string) string {
	if !c.declared[name] {
		c.declared[name] = true
		c.items = append(c.items, fmt.Sprintf("(declare-fun %s () %s)", name, sort))
	}
	return name
}

func (c *Ctx) declareFun(name string, args []string, ret string) {
	if !c.declared[name] {
		c.declared[name] = true
		c.items = append(c.items, fmt.Sprintf("(declare-fun %s (%s) %s)", name, strings.Join(args, " "), ret))
	}
}

func (c *Ctx) fresh(prefix, sort string) string {
	c.nfresh++
	n := smtName(fmt.Sprintf("%s!%d", prefix, c.nfresh))
	return c.declare(n, sort)
}

func (c *Ctx) assert(t string) {
	if t == tTrue {
		return
	}
	c.items = append(c.items, "(assert "+t+")")
}

func (c *Ctx) comment(s string) {
	c.items = append(c.items, "; "+strings.ReplaceAll(s, "\n", " "))
}

func (c *Ctx) mark() int { return len(c.items) }

// strLit returns the constant standing for a Go string literal.
func (c *Ctx) strLit(s string) string {
	if s == "" {
		return "str_empty"
	}
	if n, ok := c.strlits[s]; ok {
		return n
	}
	n := fmt.Sprintf("strlit!%d", len(c.strlits)+1)
	c.strlits[s] = n
	c.strOrder = append(c.strOrder, s)
	c.declare(n, "Str")
	c.items = append(c.items, fmt.Sprintf("; %s = %q", n, s))
	c.assert(sEq(app("str_len", n), intLit(int64(len(s)))))
	// the bytes of short literals are known
	if len(s) <= 16 {
		for k := 0; k < len(s); k++ {
			c.assert(sEq(app("str_at", n, intLit(int64(k))), intLit(int64(s[k]))))
		}
	}
	return n
}

// preamble: declarations always; each axiom only when the symbol it is about occurs in the query
const smtPreamble = `(declare-sort Str 0)
(declare-fun str_len (Str) Int)
(declare-fun str_empty () Str)
(declare-fun str_lt (Str Str) Bool)
(declare-fun str_concat (Str Str) Str)
(declare-fun str_upper (Str) Str)
(declare-fun str_lower (Str) Str)
(declare-fun str_contains (Str Str) Bool)
(declare-fun str_sub (Str Int Int) Str)
(declare-fun str_at (Str Int) Int)
(declare-fun str_zeros (Int) Str)
(declare-fun str_set (Str Int Int) Str)
(declare-fun str_splice (Str Int Str) Str)
(declare-fun byte1 (Int) Str)
(declare-fun bytes_str ((Array Int Int) Int) Str)
(declare-fun str_bytes (Str) (Array Int Int))
(declare-fun zeroarr_Str () (Array Int Str))
(declare-fun sub_addr (Int Int) Int)
(declare-fun sub_inv (Int) Int)
(declare-fun sub_tag (Int) Int)
`

type condAxiom struct {
	trigger string
	text    string
}

var condAxioms = []condAxiom{
	{"str_at", "(assert (forall ((s Str) (i Int)) (! (=> (and (<= 0 i) (< i (str_len s))) (and (<= 0 (str_at s i)) (<= (str_at s i) 255))) :pattern ((str_at s i)))))\n"},
	{"byte1", "(assert (forall ((x Int)) (! (and (= (str_len (byte1 x)) 1) (=> (and (<= 0 x) (<= x 255)) (= (str_at (byte1 x) 0) x))) :pattern ((byte1 x)))))\n(assert (forall ((s Str) (x Int)) (! (=> (and (= (str_len s) 1) (= (str_at s 0) x)) (= s (byte1 x))) :pattern ((byte1 x) (str_len s)))))\n(assert (forall ((s Str) (a Int) (b Int)) (! (=> (and (<= 0 a) (<= a b) (< b (str_len s))) (= (str_concat (str_sub s a b) (byte1 (str_at s b))) (str_sub s a (+ b 1)))) :pattern ((str_concat (str_sub s a b) (byte1 (str_at s b)))))))\n"},
	{"str_concat", "(assert (forall ((a Str) (b Str)) (! (= (str_len (str_concat a b)) (+ (str_len a) (str_len b))) :pattern ((str_concat a b)))))\n(assert (forall ((a Str)) (! (= (str_concat a str_empty) a) :pattern ((str_concat a str_empty)))))\n(assert (forall ((a Str) (b Str) (i Int)) (! (= (str_at (str_concat a b) i) (ite (< i (str_len a)) (str_at a i) (str_at b (- i (str_len a))))) :pattern ((str_at (str_concat a b) i)))))\n(assert (forall ((a Str)) (! (= (str_concat str_empty a) a) :pattern ((str_concat str_empty a)))))\n(assert (forall ((a Str) (b Str) (c Str)) (! (= (str_concat (str_concat a b) c) (str_concat a (str_concat b c))) :pattern ((str_concat (str_concat a b) c)))))\n(assert (forall ((a Str) (b Str) (i Int) (j Int)) (! (=> (and (<= (str_len a) i) (<= i j)) (= (str_sub (str_concat a b) i j) (str_sub b (- i (str_len a)) (- j (str_len a))))) :pattern ((str_sub (str_concat a b) i j)))))\n(assert (forall ((a Str) (b Str) (i Int) (j Int)) (! (=> (and (<= 0 i) (<= i j) (<= j (str_len a))) (= (str_sub (str_concat a b) i j) (str_sub a i j))) :pattern ((str_sub (str_concat a b) i j)))))\n"},
	{"str", "(assert (forall ((s Str)) (! (>= (str_len s) 0) :pattern ((str_len s)))))\n(assert (forall ((s Str)) (! (=> (= (str_len s) 0) (= s str_empty)) :pattern ((str_len s)))))\n"},
	{"bytes_str", "(assert (forall ((a (Array Int Int)) (n Int) (i Int)) (! (=> (and (<= 0 i) (< i n) (<= 0 (select a i)) (<= (select a i) 255)) (= (str_at (bytes_str a n) i) (select a i))) :pattern ((str_at (bytes_str a n) i)))))\n"},
	{"str_zeros", "(assert (forall ((n Int)) (! (=> (>= n 0) (= (str_len (str_zeros n)) n)) :pattern ((str_zeros n)))))\n(assert (forall ((n Int) (i Int)) (! (=> (and (<= 0 i) (< i n)) (= (str_at (str_zeros n) i) 0)) :pattern ((str_at (str_zeros n) i)))))\n"},
	{"str_set", "(assert (forall ((s Str) (i Int) (b Int)) (! (= (str_len (str_set s i b)) (str_len s)) :pattern ((str_set s i b)))))\n(assert (forall ((s Str) (i Int) (b Int) (j Int)) (! (= (str_at (str_set s i b) j) (ite (and (= j i) (<= 0 i) (< i (str_len s)) (<= 0 b) (<= b 255)) b (str_at s j))) :pattern ((str_at (str_set s i b) j)))))\n(assert (forall ((s Str) (i Int) (b Int) (a Int) (c Int)) (! (=> (or (< i a) (>= i c)) (= (str_sub (str_set s i b) a c) (str_sub s a c))) :pattern ((str_sub (str_set s i b) a c)))))\n"},
	{"str_splice", "(assert (forall ((s Str) (o Int) (t Str)) (! (= (str_len (str_splice s o t)) (str_len s)) :pattern ((str_splice s o t)))))\n(assert (forall ((s Str) (o Int) (t Str)) (! (=> (and (<= 0 o) (<= (+ o (str_len t)) (str_len s))) (= (str_sub (str_splice s o t) o (+ o (str_len t))) t)) :pattern ((str_splice s o t)))))\n(assert (forall ((s Str) (o Int) (t Str) (j Int)) (! (=> (or (< j o) (>= j (+ o (str_len t)))) (= (str_at (str_splice s o t) j) (str_at s j))) :pattern ((str_at (str_splice s o t) j)))))\n(assert (forall ((s Str) (o Int) (t Str) (a Int) (c Int)) (! (=> (or (<= c o) (>= a (+ o (str_len t)))) (= (str_sub (str_splice s o t) a c) (str_sub s a c))) :pattern ((str_sub (str_splice s o t) a c)))))\n"},
	{"str_sub", "(assert (forall ((s Str) (a Int) (b Int)) (! (=> (and (<= 0 a) (<= a b) (<= b (str_len s))) (= (str_len (str_sub s a b)) (- b a))) :pattern ((str_sub s a b)))))\n(assert (forall ((s Str)) (! (= (str_sub s 0 (str_len s)) s) :pattern ((str_sub s 0 (str_len s))))))\n(assert (forall ((s Str) (a Int) (b Int) (i Int)) (! (=> (and (<= 0 a) (<= 0 i) (< (+ a i) b) (<= b (str_len s))) (= (str_at (str_sub s a b) i) (str_at s (+ a i)))) :pattern ((str_at (str_sub s a b) i)))))\n(assert (forall ((s Str) (a Int) (b Int) (c Int) (d Int)) (! (=> (and (<= 0 a) (<= 0 c) (<= c d) (<= (+ a d) b) (<= b (str_len s))) (= (str_sub (str_sub s a b) c d) (str_sub s (+ a c) (+ a d)))) :pattern ((str_sub (str_sub s a b) c d)))))\n(assert (= (str_len str_empty) 0))\n(assert (forall ((s Str) (a Int) (b Int) (k Int)) (! (=> (and (<= 0 a) (<= a k) (< k b) (<= b (str_len s))) (= (str_at (str_sub s a b) (- k a)) (str_at s k))) :pattern ((str_sub s a b) (str_at s k)))))\n(assert (forall ((s Str) (a Int) (c Int) (b Int)) (! (=> (and (<= 0 a) (< a c) (<= c b) (<= b (str_len s))) (= (str_sub s c b) (str_sub (str_sub s a b) (- c a) (- b a)))) :pattern ((str_sub s a b) (str_sub s c b)))))\n"},
	{"zeroarr_Str", "(assert (forall ((i Int)) (! (= (select zeroarr_Str i) str_empty) :pattern ((select zeroarr_Str i)))))\n"},
	{"str_len", "(assert (= (str_len str_empty) 0))\n"},
	{"bytes_str", "(assert (forall ((a (Array Int Int)) (n Int)) (! (=> (>= n 0) (= (str_len (bytes_str a n)) n)) :pattern ((bytes_str a n)))))\n(assert (= (str_len str_empty) 0))\n"},
	{"str_lt", "(assert (forall ((a Str)) (not (str_lt a a))))\n(assert (forall ((a Str) (b Str) (c Str)) (=> (and (str_lt a b) (str_lt b c)) (str_lt a c))))\n(assert (forall ((a Str) (b Str)) (or (str_lt a b) (= a b) (str_lt b a))))\n(assert (forall ((a Str)) (not (str_lt a str_empty))))\n"},
}

func (c *Ctx) render(upto int, goal string, extraPre string, wantModel bool, modelTerms []string) string {
	var sb strings.Builder
	sb.WriteString("(set-option :produce-models true)\n(set-logic ALL)\n")
	sb.WriteString(smtPreamble)
	body := strings.Join(c.items[:upto], "\n") + goal
	for _, ax := range condAxioms {
		if strings.Contains(body, ax.trigger) {
			sb.WriteString(ax.text)
		}
	}
	sb.WriteString(extraPre)
	// distinctness of string literals declared so far
	var lits []string
	seen := map[string]bool{}
	for _, it := range c.items[:upto] {
		sb.WriteString(it)
		sb.WriteString("\n")
		if strings.HasPrefix(it, "(declare-fun strlit!") {
			f := strings.Fields(it)[1]
			if !seen[f] {
				seen[f] = true
				lits = append(lits, f)
			}
		}
	}
	if len(lits) > 0 {
		sort.Strings(lits)
		lits = append(lits, "str_empty")
		sb.WriteString("(assert (distinct " + strings.Join(lits, " ") + "))\n")
	}
	sb.WriteString("(assert (not " + goal + "))\n(check-sat)\n")
	if wantModel && len(modelTerms) > 0 {
		sb.WriteString("(get-value (" + strings.Join(modelTerms, " ") + "))\n")
	}
	return sb.String()
}
