package main

import (
	"encoding/json"
	"fmt"
	"os"
	"os/exec"
	"path/filepath"
	"regexp"
	"strconv"
	"strings"
	"time"
)

// runExtras: checkers that are not SMT obligations (bounded stand-ins, enumerations over go/types)
func runExtras(e *Engine, prop, tier string) []*extraResult {
	var out []*extraResult
	if prop == "C20" {
		out = append(out, e.checkAcceptCompleteness())
	}
	if prop == "C18" {
		out = append(out, e.checkSharedWrites())
	}
	if prop == "C05" {
		out = append(out, runBoundedGoTest(prop, tier, "bounded:SetLinks", "boltz", "c05_setlinks_test.go", "^TestVerifBoundedSetLinks$",
			"linkCollectionImpl.SetLinks (sorted merge): exhaustive on the real code with a real bbolt file over 4 link targets (byte-order and prefix relations), every current set x every requested list of length <= 4 over the targets plus one missing id, any order, duplicates allowed (quick: 16 x 781; thorough: 5 targets, length <= 5: 32 x 9331); checks the resulting set on both sides, IsLinked, a bystander entity, and that a missing target fails"))
	}
	switch prop {
	case "C03", "C04", "C05", "C06", "C15":
		out = append(out, runBoundedGoTest(prop, tier, "bounded:histories", "boltz", "c03_histories_test.go", "^TestVerifBoundedHistories$",
			"the history half of C03-C06/C15 (not mechanised as a proof): seeded random operation histories on the real code with a real bbolt file over stores combining a unique, a nullable unique and a set index, a nullable fk index (restrict), a plain and a reference-counted link collection and a child store with its own unique index; operations: create / full update / field-restricted update / delete through parent and child store, add / remove / set links, increment / decrement / set counts; after every operation acceptance and every index, back-reference, link, count and store answer are compared with a reference model, after every delete and at the end of every history the whole database is compared key by key with one built freshly from the model's state and ValidateDeleted is asked about every id that is not alive (quick: 120 histories x 30 operations; thorough: 1500 x 45)"))
	}
	if prop == "C01" {
		out = append(out, runBoundedGoTest(prop, tier, "bounded:queries", "boltz", "c01_queries_test.go", "^TestVerifBoundedQueries$",
			"the whole-query half of C01 that the per-node contracts leave out (anyOf / allOf / count / isEmpty over sets incl. the index-seek shortcut, negated forms, null rules, number-to-string coercion, connectives, and the composition of parser, typing pass, scanner and node evaluation): seeded random filters (fully parenthesised, depth <= 3, 23 kinds of atoms (one of them the seek shortcut anyOf(set) = literal with literals that are elements, prefixes of elements and extensions of elements) over string, nullable string, int, float, bool, datetime and string-set fields, dotted symbols through an fk set, sub-queries in count / isEmpty and any-typed map entries) on a fixed dataset of 8 rows and 3 linked entities with nulls, empty strings, prefixes and case variants, evaluated through BaseStore.QueryIds on a real bbolt file and compared with a reference evaluator of the documented semantics; every fourth filter also with sort, skip and limit (quick: 1500 filters, thorough: 40000). The recorded deviation 'a null boolean reads as false' is mirrored, not re-reported"))
	}
	if prop == "C14" {
		out = append(out, runBoundedGoTest(prop, tier, "bounded:treeCursor", "ast", "c14_treecursor_test.go", "^TestVerifBoundedTreeCursor$",
			"the one assumed part of C14 (treeCursor's enumeration order is the trusted llrb contract, its own contract is safety-only): exhaustive on the real code over every insertion order of every subset of 6 keys (7 in the thorough tier; empty key, prefixes, a NUL byte, one duplicate insert), both directions - the cursor must yield exactly the distinct keys in byte order and then be invalid - plus the union cursor over two such tree cursors against the merged list"))
	}
	if prop == "C09" {
		out = append(out, runBoundedGoTest(prop, tier, "bounded:integrity", "boltz", "c03_histories_test.go", "^TestVerifBoundedIntegrity$",
			"the clauses of C09 that are not claimed as proved (a consistent database yields no report; corruption is reported; one fix run repairs every repairable inconsistency so that an immediate re-check is clean and the indexes again mirror the entities): consistent databases built from random model states over the stores of bounded:histories, 1-3 corruptions of the repairable classes applied directly to the buckets (unique index: missing / stale / wrong-target entry; set index: missing / stale entry, empty key, missing key; fk: missing / stale back-reference; links: one side missing / only one side present), then check run (must report, must not write), one fix run over all stores, re-check (must be clean), key-by-key comparison with a database built freshly from the entities (quick: 150 cases, thorough: 2500)"))
	}
	return out
}

var reBoundedCases = regexp.MustCompile(`(?m)^BOUNDED-CASES (\d+)`)
var reBoundedFail = regexp.MustCompile(`(?m)^BOUNDED-FAIL (.*)$`)

// runBoundedGoTest runs a Go test file kept under /verif/bounded against the current /repo tree by injecting it with
// `go test -overlay` (nothing is written into /repo). The result is a bounded stand-in: labelled so, never counted as proved.
func runBoundedGoTest(prop, tier, name, pkg, file, run, note string) *extraResult {
	x := &extraResult{Name: name, Kind: "bounded", Note: note}
	work := filepath.Join(verifDir, "work", prop+"-bounded")
	os.MkdirAll(work, 0o755)
	repo := repoDir()
	ov := map[string]map[string]string{"Replace": {filepath.Join(repo, pkg, "zz_verif_bounded_"+file): filepath.Join(verifDir, "bounded", file)}}
	b, _ := json.Marshal(ov)
	ovPath := filepath.Join(work, "overlay.json")
	os.WriteFile(ovPath, b, 0o644)
	cmd := exec.Command("go", "test", "-overlay", ovPath, "-vet=off", "-count=1", "-timeout", "600s", "-v", "-run", run, "./"+pkg+"/")
	cmd.Dir = repo
	cmd.Env = append(os.Environ(), "GOFLAGS=-mod=mod", "GOPROXY=off", "GOSUMDB=off", "GOTOOLCHAIN=local", "VERIF_BOUNDED_LEVEL="+tier)
	t0 := time.Now()
	outB, err := cmd.CombinedOutput()
	out := string(outB)
	os.WriteFile(filepath.Join(work, "output.txt"), outB, 0o644)
	if m := reBoundedCases.FindStringSubmatch(out); m != nil {
		x.Cases, _ = strconv.Atoi(m[1])
	}
	for _, m := range reBoundedFail.FindAllStringSubmatch(out, -1) {
		x.Failures = append(x.Failures, m[1])
	}
	if m := regexp.MustCompile(`(?m)^HB-STATS (.*)$`).FindStringSubmatch(out); m != nil {
		x.Note += " [" + m[1] + "]"
	}
	x.Note += fmt.Sprintf(" [%d cases, %.1fs]", x.Cases, time.Since(t0).Seconds())
	if len(x.Failures) == 0 && (err != nil || x.Cases == 0) {
		// the harness did not run to completion (does not compile against the tree, panicked, timed out)
		tail := out
		if len(tail) > 1500 {
			tail = tail[len(tail)-1500:]
		}
		x.Failures = append(x.Failures, "harness did not complete: "+strings.ReplaceAll(strings.TrimSpace(tail), "\n", " | "))
	}
	return x
}
