package main

import (
	"encoding/json"
	"fmt"
	"os"
	"os/exec"
	"path/filepath"
	"regexp"
	"strconv"
	"strings"
	"time"
)

// runExtras: checkers that are not SMT obligations (bounded stand-ins, enumerations over go/types)
func runExtras(e *Engine, prop, tier string) []*extraResult {
	var out []*extraResult
	if prop == "C20" {
		out = append(out, e.checkAcceptCompleteness())
	}
	if prop == "C05" {
		out = append(out, runBoundedGoTest(prop, tier, "bounded:SetLinks", "boltz", "c05_setlinks_test.go", "^TestVerifBoundedSetLinks$",
			"linkCollectionImpl.SetLinks (sorted merge): exhaustive on the real code with a real bbolt file over 4 link targets (byte-order and prefix relations), every current set x every requested list of length <= 4 over the targets plus one missing id, any order, duplicates allowed (quick: 16 x 781; thorough: 5 targets, length <= 5: 32 x 9331); checks the resulting set on both sides, IsLinked, a bystander entity, and that a missing target fails"))
	}
	return out
}

var reBoundedCases = regexp.MustCompile(`(?m)^BOUNDED-CASES (\d+)`)
var reBoundedFail = regexp.MustCompile(`(?m)^BOUNDED-FAIL (.*)$`)

// runBoundedGoTest runs a Go test file kept under /verif/bounded against the current /repo tree by injecting it with
// `go test -overlay` (nothing is written into /repo). The result is a bounded stand-in: labelled so, never counted as proved.
func runBoundedGoTest(prop, tier, name, pkg, file, run, note string) *extraResult {
	x := &extraResult{Name: name, Kind: "bounded", Note: note}
	work := filepath.Join(verifDir, "work", prop+"-bounded")
	os.MkdirAll(work, 0o755)
	repo := repoDir()
	ov := map[string]map[string]string{"Replace": {filepath.Join(repo, pkg, "zz_verif_bounded_"+file): filepath.Join(verifDir, "bounded", file)}}
	b, _ := json.Marshal(ov)
	ovPath := filepath.Join(work, "overlay.json")
	os.WriteFile(ovPath, b, 0o644)
	cmd := exec.Command("go", "test", "-overlay", ovPath, "-vet=off", "-count=1", "-timeout", "600s", "-v", "-run", run, "./"+pkg+"/")
	cmd.Dir = repo
	cmd.Env = append(os.Environ(), "GOFLAGS=-mod=mod", "GOPROXY=off", "GOSUMDB=off", "GOTOOLCHAIN=local", "VERIF_BOUNDED_LEVEL="+tier)
	t0 := time.Now()
	outB, err := cmd.CombinedOutput()
	out := string(outB)
	os.WriteFile(filepath.Join(work, "output.txt"), outB, 0o644)
	if m := reBoundedCases.FindStringSubmatch(out); m != nil {
		x.Cases, _ = strconv.Atoi(m[1])
	}
	for _, m := range reBoundedFail.FindAllStringSubmatch(out, -1) {
		x.Failures = append(x.Failures, m[1])
	}
	x.Note += fmt.Sprintf(" [%d cases, %.1fs]", x.Cases, time.Since(t0).Seconds())
	if len(x.Failures) == 0 && (err != nil || x.Cases == 0) {
		// the harness did not run to completion (does not compile against the tree, panicked, timed out)
		tail := out
		if len(tail) > 1500 {
			tail = tail[len(tail)-1500:]
		}
		x.Failures = append(x.Failures, "harness did not complete: "+strings.ReplaceAll(strings.TrimSpace(tail), "\n", " | "))
	}
	return x
}
