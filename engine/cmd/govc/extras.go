package main

// runExtras: checkers that are not SMT obligations (bounded stand-ins, enumerations over go/types)
func runExtras(e *Engine, prop, tier string) []*extraResult {
	var out []*extraResult
	if prop == "C20" {
		out = append(out, e.checkAcceptCompleteness())
	}
	return out
}
