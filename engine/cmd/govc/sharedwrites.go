package main

import (
	"fmt"
	"go/token"
	"go/types"
	"sort"
	"strings"

	"golang.org/x/tools/go/ssa"
	"golang.org/x/tools/go/ssa/ssautil"
)

// checkSharedWrites (C18, the sequential half, by enumeration over the SSA of the whole repository - no SMT):
//
//  1. no function other than a package initialiser writes a package-level variable, or anything reached from one
//     (a map held in a package-level variable, a field of an object a package-level pointer refers to);
//  2. no closure that outlives the call that made it (it is returned, stored, boxed, or started with `go`) writes a
//     variable or buffer it captured from that call: every later invocation, from any goroutine, would share it.
//
// Each site is an obligation named after the function and the written variable, so that one that is accepted
// (allow list below, with the reason) is not confused with a new one.
func (e *Engine) checkSharedWrites() *extraResult {
	x := &extraResult{Name: "enum:shared-writes", Kind: "enumeration", ObFailed: map[string]string{},
		Note: "every Store / MapUpdate of every function of the four packages (generated lexer/parser excluded) is classified by the root of its address: writes rooted at a package-level variable outside init, and writes through captured variables in closures that escape their maker, are violations"}
	// accepted sites: name -> reason
	allow := map[string]string{}
	var fns []*ssa.Function
	for fn := range allFunctionsOf(e) {
		fns = append(fns, fn)
	}
	sort.Slice(fns, func(i, j int) bool { return fns[i].String() < fns[j].String() })
	// root of an address or value: the Global / FreeVar / Alloc / Parameter it derives from, through field and
	// index addressing, loads, slicing and conversions
	var root func(v ssa.Value, depth int) (ssa.Value, bool)
	root = func(v ssa.Value, depth int) (ssa.Value, bool) {
		if depth > 20 {
			return v, false
		}
		loaded := false
		switch t := v.(type) {
		case *ssa.FieldAddr:
			return root(t.X, depth+1)
		case *ssa.IndexAddr:
			return root(t.X, depth+1)
		case *ssa.Field:
			return root(t.X, depth+1)
		case *ssa.Index:
			return root(t.X, depth+1)
		case *ssa.Slice:
			return root(t.X, depth+1)
		case *ssa.ChangeType:
			return root(t.X, depth+1)
		case *ssa.Convert:
			return root(t.X, depth+1)
		case *ssa.UnOp:
			if t.Op == token.MUL {
				r, _ := root(t.X, depth+1)
				return r, true
			}
		}
		return v, loaded
	}
	for _, fn := range fns {
		if fn.Name() == "init" || strings.HasPrefix(fn.Name(), "init#") || fn.Synthetic != "" {
			continue
		}
		pos := e.fset.Position(fn.Pos())
		if strings.HasSuffix(pos.Filename, "zitiql_parser.go") || strings.HasSuffix(pos.Filename, "zitiql_lexer.go") || strings.HasSuffix(pos.Filename, "_test.go") {
			continue
		}
		// does this anonymous function escape its maker?
		escapes := false
		if fn.Parent() != nil {
			var uses func(v ssa.Value, depth int)
			uses = func(v ssa.Value, depth int) {
				if v.Referrers() == nil || depth > 5 {
					return
				}
				for _, r := range *v.Referrers() {
					switch u := r.(type) {
					case *ssa.Call, *ssa.Defer, *ssa.DebugRef:
						// called on the spot, or passed as an argument: it runs within the callee's activation (trusted for
						// the callbacks of bbolt, llrb, antlr and this repository)
						continue
					case *ssa.ChangeType:
						uses(u, depth+1) // conversion to a named function type
					case *ssa.Go:
						escapes = true
					default:
						escapes = true
					}
				}
			}
			for _, b := range fn.Parent().Blocks {
				for _, in := range b.Instrs {
					if mc, ok := in.(*ssa.MakeClosure); ok && mc.Fn == fn {
						uses(mc, 0)
					}
				}
			}
		}
		// synchronised code is not this check's business: a function (or the function a closure belongs to) that takes a
		// mutex, and a closure run by sync.Once, may write shared state without a race
		if guarded(fn) {
			continue
		}
		seen := map[string]bool{}
		report := func(kind, what string, p token.Pos) {
			name := fmt.Sprintf("%s/sharedwrite#%s.%s", displayKey(keyOfFunction(fn)), kind, what)
			if seen[name] {
				return
			}
			seen[name] = true
			x.ObNames = append(x.ObNames, name)
			if why, ok := allow[name]; ok {
				_ = why
				return
			}
			x.ObFailed[name] = fmt.Sprintf("%s: %s writes %s %s", e.fset.Position(p), displayKey(keyOfFunction(fn)), map[string]string{"global": "the package-level variable", "captured": "(in a closure that outlives its maker) the captured variable", "frozen": "(outside the wiring functions) a field of a configuration object shared by every transaction:"}[kind], what)
		}
		for _, b := range fn.Blocks {
			for _, in := range b.Instrs {
				var addr ssa.Value
				switch t := in.(type) {
				case *ssa.Store:
					addr = t.Addr
				case *ssa.MapUpdate:
					addr = t.Map
				case ssa.CallInstruction:
					// the address of a package-level variable handed to a callee (errors.As(err, &pkgVar), json.Unmarshal(b, &pkgVar))
					if f := t.Common().StaticCallee(); f != nil && f.Pkg != nil && (f.Pkg.Pkg.Path() == "sync" || f.Pkg.Pkg.Path() == "sync/atomic") {
						continue // sync and atomic objects are made to be shared
					}
					for _, a := range t.Common().Args {
						if g, ok := a.(*ssa.Global); ok {
							report("global", g.Name()+"(address passed to "+calleeName(t.Common())+")", in.Pos())
						}
					}
					continue
				default:
					continue
				}
				// (3) configuration objects are frozen once the stores are wired: no later write to any field (present or future)
				if ft, ff := frozenField(addr, 0); ft != "" && !wiring(fn) {
					report("frozen", ft+"."+ff, in.Pos())
				}
				r, _ := root(addr, 0)
				switch g := r.(type) {
				case *ssa.Global:
					report("global", g.Name(), in.Pos())
				case *ssa.FreeVar:
					if escapes {
						report("captured", g.Name(), in.Pos())
					}
				}
			}
		}
	}
	x.Cases = len(fns)
	for n, f := range x.ObFailed {
		x.Failures = append(x.Failures, n+": "+f)
	}
	sort.Strings(x.Failures)
	sort.Strings(x.ObNames)
	return x
}

func allFunctionsOf(e *Engine) map[*ssa.Function]bool {
	out := map[*ssa.Function]bool{}
	for fn := range ssautil.AllFunctions(e.prog) {
		if fn.Pkg != nil && strings.HasPrefix(fn.Pkg.Pkg.Path(), repoMod) {
			out[fn] = true
		}
	}
	return out
}

func calleeName(cc *ssa.CallCommon) string {
	if f := cc.StaticCallee(); f != nil {
		return f.Name()
	}
	if cc.IsInvoke() {
		return cc.Method.Name()
	}
	return "a function value"
}

// frozen: types whose objects are set up while the stores are wired and are then shared, read-only, by every
// transaction and goroutine: indexes, constraints, symbols, link collections
var frozenTypes = map[string]bool{
	"boltz.uniqueIndex": true, "boltz.setIndex": true, "boltz.fkIndex": true, "boltz.fkConstraint": true, "boltz.fkDeleteConstraint": true,
	"boltz.fkDeleteCascadeConstraint": true, "boltz.systemEntityConstraint": true,
	"boltz.LinkedSetSymbol": true, "boltz.RefCountedLinkedSetSymbol": true, "boltz.linkCollectionImpl": true, "boltz.rcLinkCollectionImpl": true,
	"boltz.entitySymbol": true, "boltz.entitySetSymbolImpl": true, "boltz.entityIdSymbol": true, "boltz.entityMapSymbol": true,
	"boltz.nonSetCompositeEntitySymbol": true, "boltz.ExternalSymbol": true,
}

// frozenField: the address is (a path below) a field of an object of a frozen type that the function did not allocate itself
func frozenField(v ssa.Value, depth int) (string, string) {
	if depth > 20 {
		return "", ""
	}
	switch t := v.(type) {
	case *ssa.FieldAddr:
		if owner := elemOf(t.X.Type()); owner != nil && frozenTypes[typeKey(owner)] {
			// allocated right here: construction
			base := t.X
			for {
				if fa, ok := base.(*ssa.FieldAddr); ok {
					base = fa.X
					continue
				}
				break
			}
			if _, isAlloc := base.(*ssa.Alloc); !isAlloc {
				if st, ok := under(owner).(*types.Struct); ok {
					return typeKey(owner), st.Field(t.Field).Name()
				}
			}
		}
		return frozenField(t.X, depth+1)
	case *ssa.IndexAddr:
		return frozenField(t.X, depth+1)
	case *ssa.Slice:
		return frozenField(t.X, depth+1)
	case *ssa.UnOp:
		if t.Op == token.MUL {
			return frozenField(t.X, depth+1)
		}
	}
	return "", ""
}

// wiring: a function that is not handed a transaction (no *bbolt.Tx, mutate / indexing / persist context or typed bucket
// among its parameters or those of the function it is nested in) cannot be running inside one: it is set-up code,
// which is where configuration objects are filled in
func wiring(fn *ssa.Function) bool {
	for f := fn; f != nil; f = f.Parent() {
		for _, p := range f.Params {
			ts := p.Type().String()
			for _, k := range []string{"bbolt.Tx", "boltz.MutateContext", "boltz.IndexingContext", "boltz.PersistContext", "boltz.TypedBucket"} {
				if strings.Contains(ts, k) {
					return false
				}
			}
		}
	}
	return true
}

func guarded(fn *ssa.Function) bool {
	for f := fn; f != nil; f = f.Parent() {
		for _, b := range f.Blocks {
			for _, in := range b.Instrs {
				ci, ok := in.(ssa.CallInstruction)
				if !ok {
					continue
				}
				if c := ci.Common().StaticCallee(); c != nil && c.Pkg != nil && c.Pkg.Pkg.Path() == "sync" && (c.Name() == "Lock" || c.Name() == "Do") {
					return true
				}
			}
		}
	}
	return false
}
