package main

import (
	"go/token"
	"encoding/json"
	"flag"
	"fmt"
	"go/types"
	"os"
	"path/filepath"
	"regexp"
	"sort"
	"strconv"
	"strings"
	"time"

	"golang.org/x/tools/go/ssa"
)

var verifDir = "/verif"

// checkedProp: the property of the running `check` (empty for `vc`)
var checkedProp string

func main() {
	if len(os.Args) < 2 {
		fmt.Fprintln(os.Stderr, "usage: govc check <Cxx> [--tier quick|thorough] | vc <funcpattern> | list")
		os.Exit(2)
	}
	if d := os.Getenv("VERIF_DIR"); d != "" {
		verifDir = d
	}
	switch os.Args[1] {
	case "check":
		os.Exit(cmdCheck(os.Args[2:]))
	case "vc":
		os.Exit(cmdVC(os.Args[2:]))
	case "list":
		os.Exit(cmdList(os.Args[2:]))
	case "axioms":
		os.Exit(cmdAxioms(os.Args[2:]))
	case "gen-accept":
		os.Exit(cmdGenAccept(os.Args[2:]))
	case "gen-typeinv":
		os.Exit(cmdGenTypeInv(os.Args[2:]))
	case "gen-gettype":
		os.Exit(cmdGenGetType(os.Args[2:]))
	case "errfuncs":
		os.Exit(cmdErrFuncs(os.Args[2:]))
	case "replay":
		os.Exit(cmdReplay(os.Args[2:]))
	case "replayable":
		os.Exit(cmdReplayable(os.Args[2:]))
	default:
		fmt.Fprintln(os.Stderr, "unknown command", os.Args[1])
		os.Exit(2)
	}
}

func repoDir() string {
	if d := os.Getenv("VERIF_REPO"); d != "" {
		return d
	}
	return "/repo"
}

func hasProp(c *Contract, p string) bool {
	for _, x := range c.Props {
		if x == p {
			return true
		}
	}
	return false
}

type target struct {
	fn    *ssa.Function
	con   *Contract
	iface *Contract
	sweep bool
	sweepProp string // the property whose sweep selected this function
	implOf types.Type // concrete type whose method set is being checked (promoted methods: the outer type)
}

// targetsFor: the functions under contract for a property
func (e *Engine) targetsFor(prop string) ([]target, []string) {
	var out []target
	var problems []string
	keys := make([]string, 0, len(e.contracts))
	for k := range e.contracts {
		keys = append(keys, k)
	}
	sort.Strings(keys)
	for _, k := range keys {
		c := e.contracts[k]
		if !hasProp(c, prop) && prop != "all" {
			continue
		}
		if c.Trusted {
			continue
		}
		if c.IsIface {
			// implementations that must satisfy the interface-level contract
			impl := c.Flags["impl"]
			if impl == "" {
				continue
			}
			want := map[string]bool{}
			for _, w := range strings.Fields(impl) {
				want[w] = true
			}
			for _, id := range e.implementors(c.IfaceT) {
				t := e.tt.types[id-1]
				name := typeKey(t)
				if !want["all"] && !want[name] {
					continue
				}
				ms := e.prog.MethodSets.MethodSet(t)
				sel := ms.Lookup(c.Obj.Pkg(), c.Obj.Name())
				if sel == nil {
					continue
				}
				fn := e.prog.MethodValue(sel)
				if fn == nil || len(fn.Blocks) == 0 || fn.Synthetic != "" {
					continue
				}
				own := e.contracts[keyOfFunction(fn)]
				out = append(out, target{fn: fn, con: own, iface: c})
			}
			continue
		}
		fn := e.findFunction(c)
		if fn == nil || len(fn.Blocks) == 0 {
			problems = append(problems, fmt.Sprintf("contract-orphan: %s has no body in the loaded program", displayKey(c.Key)))
			continue
		}
		out = append(out, target{fn: fn, con: c})
	}
	// implcheck declarations
	for _, ic := range e.cs.ImplChecks {
		// the property may be a comma-separated list: the implementation is checked under each of them
		icHit := prop == "all"
		for _, q := range strings.Split(ic.Prop, ",") {
			if q == prop {
				icHit = true
			}
		}
		if !icHit {
			continue
		}
		parts := strings.SplitN(ic.Iface, ".", 2)
		var ipkg *types.Package
		iname := ic.Iface
		if len(parts) == 2 {
			ipkg = e.pkgByName(parts[0])
			iname = parts[1]
		} else {
			ipkg = e.tpkgs[ic.PkgPath]
		}
		if ipkg == nil {
			problems = append(problems, "implcheck: unknown package in "+ic.Iface)
			continue
		}
		itn, _ := ipkg.Scope().Lookup(iname).(*types.TypeName)
		if itn == nil {
			problems = append(problems, "implcheck: unknown interface "+ic.Iface)
			continue
		}
		it, ok := itn.Type().Underlying().(*types.Interface)
		if !ok {
			problems = append(problems, "implcheck: not an interface: "+ic.Iface)
			continue
		}
		tpkg := e.tpkgs[ic.PkgPath]
		for _, tname := range ic.Types {
			ttn, _ := tpkg.Scope().Lookup(strings.TrimPrefix(tname, "*")).(*types.TypeName)
			if ttn == nil {
				problems = append(problems, "implcheck: unknown type "+tname)
				continue
			}
			var ct types.Type = ttn.Type()
			if strings.HasPrefix(tname, "*") {
				ct = types.NewPointer(ct)
			}
			for i := 0; i < it.NumMethods(); i++ {
				m := it.Method(i)
				ic2 := e.contracts[funcKeyOf(m)]
				if ic2 == nil || !ic2.IsIface {
					continue
				}
				ms := e.prog.MethodSets.MethodSet(ct)
				sel := ms.Lookup(m.Pkg(), m.Name())
				if sel == nil {
					problems = append(problems, fmt.Sprintf("implcheck: %s has no method %s", tname, m.Name()))
					continue
				}
				fn := e.prog.MethodValue(sel)
				if fn == nil || len(fn.Blocks) == 0 {
					continue
				}
				if fn.Synthetic != "" {
					// promoted method: check the declaring method (receiver = the embedded struct)
					if obj, ok := sel.Obj().(*types.Func); ok {
						if dfn := e.prog.FuncValue(obj); dfn != nil && len(dfn.Blocks) > 0 {
							fn = dfn
						}
					}
				}
				out = append(out, target{fn: fn, con: e.contracts[keyOfFunction(fn)], iface: ic2, implOf: ct})
			}
		}
	}
	// sweeps: every function of the named files (safety obligations; the function's own contract is used if it has one)
	have := map[*ssa.Function]bool{}
	for _, t := range out {
		have[t.fn] = true
	}
	for _, sw := range e.cs.Sweeps {
		if sw.Prop != prop {
			continue
		}
		for _, fn := range e.sweepFunctions(sw) {
			if have[fn] {
				continue
			}
			have[fn] = true
			out = append(out, target{fn: fn, con: e.contracts[keyOfFunction(fn)], sweep: true, sweepProp: sw.Prop})
		}
	}
	return out, problems
}

func (e *Engine) sweepFunctions(sw *SweepDecl) []*ssa.Function {
	pkg := e.spkgs[sw.PkgPath]
	if pkg == nil {
		return nil
	}
	match := func(base string, list []string) bool {
		for _, f := range list {
			if f == "*" || f == base {
				return true
			}
		}
		return false
	}
	var out []*ssa.Function
	seen := map[*ssa.Function]bool{}
	var visit func(fn *ssa.Function)
	visit = func(fn *ssa.Function) {
		if fn == nil || len(fn.Blocks) == 0 || seen[fn] || fn.Synthetic != "" {
			return
		}
		seen[fn] = true
		base := filepath.Base(e.fset.Position(fn.Pos()).Filename)
		if strings.HasSuffix(base, "_test.go") || !match(base, sw.Files) || match(base, sw.Except) || match(displayKey(keyOfFunction(fn)), sw.Except) {
			return
		}
		if c := e.contracts[keyOfFunction(fn)]; c != nil && c.Trusted {
			return
		}
		out = append(out, fn)
		for _, a := range fn.AnonFuncs {
			visit(a)
		}
	}
	for _, m := range pkg.Members {
		switch x := m.(type) {
		case *ssa.Function:
			visit(x)
		case *ssa.Type:
			if nt, ok := x.Type().(*types.Named); ok {
				for i := 0; i < nt.NumMethods(); i++ {
					visit(e.prog.FuncValue(nt.Method(i)))
				}
			}
		}
	}
	sort.Slice(out, func(i, j int) bool { return keyOfFunction(out[i]) < keyOfFunction(out[j]) })
	return out
}

type checkResult struct {
	used        map[string]bool // keys of the contracts applied at call sites
	verdicts    []*Verdict
	funcs       []string
	abstracted  map[string][]string
	uncontracted map[string]bool
	trustedUsed map[string]string
	problems    []string
	engineErrs  []string
	assumed     []string
	nosafety    []string
}

func (e *Engine) runTargets(ts []target, mode string) *checkResult {
	res := &checkResult{abstracted: map[string][]string{}, uncontracted: map[string]bool{}, trustedUsed: map[string]string{}, used: map[string]bool{}}
	var obls []*Obligation
	// a function that is verified more than once (under its own contract, as the implementation of an interface-level
	// contract, as a promoted method of several outer types) gets a tag per run, so that no two obligations share a name
	perFn := map[*ssa.Function]int{}
	for _, t := range ts {
		perFn[t.fn]++
	}
	for _, t := range ts {
		con := t.con
		fx := e.newFnExec(t.fn, con)
		fx.iface = t.iface
		fx.implOf = t.implOf
		fx.mode = mode
		if perFn[t.fn] > 1 && t.iface != nil {
			fx.nameTag = "~" + shortName(t.iface.Key)
			if t.iface.IfaceT != nil {
				fx.nameTag = "~" + typeKey(t.iface.IfaceT)
			}
			if t.implOf != nil {
				fx.nameTag += ":" + typeKey(t.implOf)
			}
		}
		if con == nil {
			fx.con = &Contract{Flags: map[string]string{}, Absorbs: map[string]string{}, Inv: map[int][]Clause{}, Dec: map[int]Clause{}}
			if t.iface != nil {
				fx.con.Props = t.iface.Props
			}
		}
		if fx.con.Flags["errflow"] != "" || hasFlag(fx.con, "errflow") {
			fx.errflow = true
		}
		for _, r := range fx.con.Req {
			if r.Kind == "assume" {
				res.assumed = append(res.assumed, displayKey(fx.key)+": "+r.Text)
			}
		}
		for _, r := range fx.con.Ens {
			if r.Kind == "censures" && !strings.HasPrefix(r.Text, "visited[") {
				res.assumed = append(res.assumed, displayKey(fx.key)+" (postcondition assumed at call sites, not proved in the body): "+r.Text)
			}
		}
		defer func(fx *FnExec) {
			for _, w := range dedup(fx.waived) {
				res.assumed = append(res.assumed, displayKey(fx.key)+" (obligation class waived) "+w)
			}
			for _, w := range dedup(fx.notes) {
				res.assumed = append(res.assumed, displayKey(fx.key)+" (modelling note) "+w)
			}
		}(fx)
		if fx.con != nil && hasFlag(fx.con, "nosafety") {
			res.nosafety = append(res.nosafety, displayKey(fx.key))
		}
		name := displayKey(fx.key)
		if t.iface != nil {
			name += " (impl of " + displayKey(t.iface.Key) + ")"
		}
		res.funcs = append(res.funcs, name)
		if err := fx.run(); err != nil {
			res.engineErrs = append(res.engineErrs, fmt.Sprintf("%s: %v", name, err))
			continue
		}
		if fx.con != nil && !fx.con.IsIface {
			for _, en := range fx.con.Ens {
				if en.Kind == "lensures" && !fx.lensEvaluated[fmt.Sprintf("%s:%d", en.File, en.Line)] {
					res.engineErrs = append(res.engineErrs, fmt.Sprintf("%s: %s:%d: lensures[%s] is evaluated at no return (a local it names is never defined)", name, en.File, en.Line, en.Label))
				}
			}
		}
		if fx.con != nil {
			for ck := range fx.con.CallPre {
				if !fx.seenCallPre[ck] {
					// the call the clause is about is gone: that is a failure of the clause, not a reason to drop it
					fx.oblige("callpre", ck+".call-exists", tFalse, "the call "+ck+" named by a callpre clause exists in the function", token.NoPos)
				}
			}
		}
		for _, o := range fx.obls {
			if len(o.Props) == 0 {
				o.Props = fx.con.Props
			}
		}
		if checkedProp != "" {
			// clauses restricted to some properties (clauseprops) are not part of the other properties' checks
			var keep []*Obligation
			for _, o := range fx.obls {
				if !o.OnlyProps || containsStr(o.Props, checkedProp) {
					keep = append(keep, o)
				}
			}
			fx.obls = keep
		}
		if t.sweep && t.con != nil && !containsStr(t.con.Props, t.sweepProp) {
			// a function swept for its safety obligations: the postconditions of its own contract belong to the
			// properties that contract names, not to the sweeping property
			var keep []*Obligation
			for _, o := range fx.obls {
				if o.Class != "post" {
					keep = append(keep, o)
				}
			}
			fx.obls = keep
		}
		obls = append(obls, fx.obls...)
		if len(fx.abstracted) > 0 {
			res.abstracted[name] = dedup(fx.abstracted)
		}
		for k := range fx.uncontracted {
			res.uncontracted[displayKey(k)] = true
		}
		for k := range fx.usedContracts {
			res.used[k] = true
			if c := e.contracts[k]; c != nil && c.Trusted {
				res.trustedUsed[displayKey(k)] = c.TrustedWhy
			} else if strings.HasPrefix(k, "pure-package:") {
				res.trustedUsed[displayKey(k)] = "treated as not writing repository-visible memory"
			}
		}
	}
	res.verdicts = nil
	res.problems = nil
	resObls = obls
	return res
}

var resObls []*Obligation

func hasFlag(c *Contract, f string) bool {
	_, ok := c.Flags[f]
	return ok
}

func dedup(in []string) []string {
	seen := map[string]bool{}
	var out []string
	for _, s := range in {
		if !seen[s] {
			seen[s] = true
			out = append(out, s)
		}
	}
	return out
}

func cmdList(args []string) int {
	e, err := loadEngine(repoDir(), filepath.Join(verifDir, "spec", "trusted"))
	if err != nil {
		fmt.Fprintln(os.Stderr, err)
		return 2
	}
	for _, er := range e.errors {
		fmt.Println("ERROR", er)
	}
	keys := make([]string, 0, len(e.contracts))
	for k := range e.contracts {
		keys = append(keys, k)
	}
	sort.Strings(keys)
	for _, k := range keys {
		c := e.contracts[k]
		fmt.Printf("%-80s props=%v trusted=%v iface=%v\n", displayKey(k), c.Props, c.Trusted, c.IsIface)
	}
	return 0
}

// cmdAxioms prints the whole background theory (preamble, conditional axioms, every spec function and axiom of the
// contract files) as one SMT-LIB text; selftest/axioms.py adds ground terms and checks that no solver refutes it
func cmdAxioms(args []string) int {
	e, err := loadEngine(repoDir(), filepath.Join(verifDir, "spec", "trusted"))
	if err != nil {
		fmt.Fprintln(os.Stderr, err)
		return 2
	}
	fx := &FnExec{e: e, c: newCtx()}
	for _, sd := range e.cs.Specs {
		switch sd.Ret {
		case "Int", "Bool", "Str", "Real":
		default:
			if !strings.HasPrefix(sd.Ret, "(Array ") {
				continue // Go-typed result: resolved per use
			}
		}
		fx.useSpec(sd)
	}
	fmt.Print("(set-logic ALL)\n" + smtPreamble)
	for _, ax := range condAxioms {
		fmt.Print(ax.text)
	}
	for _, it := range fx.c.items {
		fmt.Println(it)
	}
	return 0
}

// cmdVC: debugging aid - verify functions matching a pattern and print verdicts
func cmdVC(args []string) int {
	fs := flag.NewFlagSet("vc", flag.ExitOnError)
	timeout := fs.Int("t", 10, "timeout per obligation (s)")
	keep := fs.String("work", "", "work dir")
	verbose := fs.Bool("v", false, "verbose")
	fs.Parse(args)
	pat := fs.Arg(0)
	e, err := loadEngine(repoDir(), filepath.Join(verifDir, "spec", "trusted"))
	if err != nil {
		fmt.Fprintln(os.Stderr, err)
		return 2
	}
	for _, er := range e.errors {
		fmt.Println("ERROR", er)
	}
	ts, probs := e.targetsFor("all")
	if strings.HasPrefix(pat, "sweep:") {
		parts := strings.SplitN(pat[6:], ":", 2)
		ts, probs = e.targetsFor(parts[0])
		pat = ""
		if len(parts) > 1 {
			pat = parts[1]
		}
	}
	for _, p := range probs {
		fmt.Println("PROBLEM", p)
	}
	var sel []target
	for _, t := range ts {
		k := keyOfFunction(t.fn)
		if ok, err := regexp.MatchString(pat, displayKey(k)); (err == nil && ok) || strings.Contains(displayKey(k), pat) {
			sel = append(sel, t)
		}
	}
	res := e.runTargets(sel, "full")
	for _, er := range res.engineErrs {
		fmt.Println("ENGINE-ERROR", er)
	}
	work := *keep
	if work == "" {
		work, _ = os.MkdirTemp("", "govc-vc")
		defer os.RemoveAll(work)
	}
	vs := solveAll(resObls, work, *timeout, false, 6)
	bad := 0
	for _, v := range vs {
		if v.Status != "discharged" && v.Status != "cover-ok" {
			bad++
		}
		if *verbose || (v.Status != "discharged" && v.Status != "cover-ok") {
			fmt.Printf("%-12s %-6dms %-14s %s  [%s] %s\n", v.Status, v.Ms, v.Solver, v.Ob.Name, v.Ob.Pos, v.Ob.Text)
			if v.Status == "failed" && *verbose {
				fmt.Println("   model:", strings.ReplaceAll(v.Model, "\n", " "))
			}
		}
	}
	for f, a := range res.abstracted {
		fmt.Println("ABSTRACTED", f, a)
	}
	var un []string
	for k := range res.uncontracted {
		un = append(un, k)
	}
	sort.Strings(un)
	if len(un) > 0 {
		fmt.Println("UNCONTRACTED (havoc):", strings.Join(un, ", "))
	}
	fmt.Printf("%d functions, %d obligations, %d not discharged\n", len(sel), len(vs), bad)
	if bad > 0 {
		return 1
	}
	return 0
}

// ---------------------------------------------------------------------------
// check: the registered command
// ---------------------------------------------------------------------------

func containsStr(xs []string, x string) bool {
	for _, y := range xs {
		if y == x {
			return true
		}
	}
	return false
}

// lookupKnown: findings are keyed by obligation name; a finding recorded without the @retN / @bN suffix covers every
// return / back edge of that obligation
func lookupKnown(known map[string]knownFinding, name string) (knownFinding, bool) {
	if kf, ok := known[name]; ok {
		return kf, true
	}
	kf, ok := known[canonName(name)]
	return kf, ok
}

type knownFinding struct {
	Prop, Obligation, What string
}

func loadKnown() (findings []knownFinding, fixed []string) {
	b, err := os.ReadFile(filepath.Join(verifDir, "known_findings.txt"))
	if err != nil {
		return
	}
	for _, l := range strings.Split(string(b), "\n") {
		l = strings.TrimSpace(l)
		if strings.HasPrefix(l, "finding:") {
			kf := knownFinding{}
			for _, f := range splitFields(l[len("finding:"):]) {
				switch {
				case strings.HasPrefix(f, "property="):
					kf.Prop = f[9:]
				case strings.HasPrefix(f, "obligation="):
					kf.Obligation = strings.Trim(f[11:], `"`)
				case strings.HasPrefix(f, "what="):
					kf.What = strings.Trim(f[5:], `"`)
				}
			}
			findings = append(findings, kf)
		} else if strings.HasPrefix(l, "fixed:") {
			fixed = append(fixed, l)
		}
	}
	return
}

// splitFields splits on spaces outside double quotes
func splitFields(s string) []string {
	var out []string
	var cur strings.Builder
	inq := false
	for _, c := range s {
		switch {
		case c == '"':
			inq = !inq
			cur.WriteRune(c)
		case c == ' ' && !inq:
			if cur.Len() > 0 {
				out = append(out, cur.String())
				cur.Reset()
			}
		default:
			cur.WriteRune(c)
		}
	}
	if cur.Len() > 0 {
		out = append(out, cur.String())
	}
	return out
}

var reOrdSuffix = regexp.MustCompile(`(@ret\d+|@b\d+)$`)
var rePreOrd = regexp.MustCompile(`@\d+\.`)
var reNumbered = regexp.MustCompile(`/(nil|idx|assert|div|unreachable|makeslice|typeinv|typeinv-exit|monotone|immutable|boxnil|cover|frame|pre)#`)

// canonName: the stable part of an obligation name. Return/latch ordinals are dropped, and
// obligations that are only numbered in instruction order (safety checks) have no stable name.
func canonName(n string) string {
	if reNumbered.MatchString(n) {
		return ""
	}
	n = reOrdSuffix.ReplaceAllString(n, "")
	if i := strings.Index(n, "/errflow#"); i >= 0 {
		n = n[:i] + "/errflow"
	}
	if strings.Contains(n, "/pre#") {
		n = rePreOrd.ReplaceAllString(n, ".")
	}
	return n
}

func loadBaseline(prop string) map[string]bool {
	b, err := os.ReadFile(filepath.Join(verifDir, "baseline", prop+".obligations"))
	if err != nil {
		return nil
	}
	m := map[string]bool{}
	for _, l := range strings.Split(string(b), "\n") {
		l = strings.TrimSpace(l)
		if l != "" && !strings.HasPrefix(l, "#") {
			m[l] = true
		}
	}
	return m
}

func cmdCheck(args []string) int {
	fs := flag.NewFlagSet("check", flag.ExitOnError)
	tier := fs.String("tier", "", "quick|thorough")
	rebaseline := fs.Bool("rebaseline", false, "rewrite baseline/<prop>.obligations from this run")
	var prop string
	if len(args) > 0 && !strings.HasPrefix(args[0], "-") {
		prop = args[0]
		args = args[1:]
	}
	fs.Parse(args)
	if prop == "" {
		prop = fs.Arg(0)
	}
	if *tier == "" {
		*tier = os.Getenv("VERIF_TIER")
	}
	if *tier == "" {
		*tier = "quick"
	}
	seed, _ := strconv.Atoi(os.Getenv("VERIF_SEED"))
	t0 := time.Now()
	e, err := loadEngine(repoDir(), filepath.Join(verifDir, "spec", "trusted"))
	if err != nil {
		// the tree does not load: nothing can be decided
		fmt.Fprintln(os.Stderr, "govc: cannot load /repo:", err)
		return 2
	}
	checkedProp = prop
	ts, problems := e.targetsFor(prop)
	for _, er := range e.errors {
		problems = append(problems, er)
	}
	res := e.runTargets(ts, "full")
	obls := resObls
	// A contract on a repository function that names no property belongs to whoever relies on it: it is verified in
	// every check that applies it at a call site (transitively), so that no contract of this repository is ever merely
	// assumed because nobody claimed it.
	{
		have := map[*ssa.Function]bool{}
		for _, t := range ts {
			have[t.fn] = true
		}
		for round := 0; round < 6; round++ {
			var more []target
			var keys []string
			for k := range res.used {
				keys = append(keys, k)
			}
			sort.Strings(keys)
			for _, k := range keys {
				c := e.contracts[k]
				if c == nil || c.Trusted || c.IsIface || len(c.Props) > 0 || c.Flags["funcparam"] != "" || c.Flags["functype"] != "" || c.Flags["funcfield"] != "" {
					continue
				}
				fn := e.findFunction(c)
				if fn == nil || len(fn.Blocks) == 0 || have[fn] {
					continue
				}
				have[fn] = true
				more = append(more, target{fn: fn, con: c})
			}
			if len(more) == 0 {
				break
			}
			r2 := e.runTargets(more, "full")
			obls = append(obls, resObls...)
			ts = append(ts, more...)
			res.funcs = append(res.funcs, r2.funcs...)
			res.engineErrs = append(res.engineErrs, r2.engineErrs...)
			res.assumed = append(res.assumed, r2.assumed...)
			res.nosafety = append(res.nosafety, r2.nosafety...)
			for k, v := range r2.abstracted {
				res.abstracted[k] = v
			}
			for k := range r2.uncontracted {
				res.uncontracted[k] = true
			}
			for k, v := range r2.trustedUsed {
				res.trustedUsed[k] = v
			}
			for k := range r2.used {
				res.used[k] = true
			}
		}
	}
	// extra (non-contract) checkers registered for this property
	extra := runExtras(e, prop, *tier)
	timeout := 10
	if *tier == "thorough" {
		timeout = 60
	}
	work := filepath.Join(verifDir, "work", prop)
	os.RemoveAll(work)
	vs := solveAll(obls, work, timeout, *tier == "thorough", 6)
	return report(e, prop, *tier, seed, t0, ts, res, vs, problems, extra, *rebaseline)
}

type extraResult struct {
	Name       string
	Kind       string // "bounded" etc
	Cases      int
	Failures   []string
	Note       string
	ObNames    []string // synthetic obligations (discharged by enumeration of a finite type table etc.)
	ObFailed   map[string]string
}

type evidence struct {
	PropertyID  string         `json:"property_id"`
	Tier        string         `json:"tier"`
	Seed        int            `json:"seed"`
	Level       string         `json:"level"`
	Coverage    map[string]any `json:"coverage"`
	Assumptions []string       `json:"assumptions"`
	WallS       float64        `json:"wall_s"`
	Violations  int            `json:"violations"`
}

func report(e *Engine, prop, tier string, seed int, t0 time.Time, ts []target, res *checkResult, vs []*Verdict, problems []string, extras []*extraResult, rebaseline bool) int {
	findings, _ := loadKnown()
	known := map[string]knownFinding{}
	for _, f := range findings {
		if f.Prop == prop {
			known[f.Obligation] = f
		}
	}
	baseline := loadBaseline(prop)
	replayDir := filepath.Join(verifDir, "replays", prop)
	os.RemoveAll(replayDir)
	os.MkdirAll(replayDir, 0o755)

	nObl, nDis := 0, 0
	bySolver := map[string]int{}
	var solverMs int64
	var violations []string
	var knownHit []string
	var perOb []map[string]any
	var samples []any
	present := map[string]bool{}
	var names []string
	vacuous := 0
	deadCovers := map[string][]string{}
	liveRet := map[string]bool{}
	hasRet := map[string]bool{}
	defer func() { _ = deadCovers }()
	for _, v := range vs {
		present[canonName(v.Ob.Name)] = true
		if v.Ob.Class == "cover" {
			if v.Status == "cover-vacuous" {
				if strings.HasSuffix(v.Ob.Name, "/cover#pre") && v.Ob.fx != nil && (v.Ob.fx.iface != nil || v.Ob.fx.inheritedPre) {
					// an interface-level precondition that this implementation can never meet (e.g. Current() on the
					// always-empty cursor): nothing to prove, not a vacuity fault of the contract
					deadCovers[v.Ob.Fn] = append(deadCovers[v.Ob.Fn], v.Ob.Name)
					liveRet[v.Ob.Fn] = true
				} else if strings.HasSuffix(v.Ob.Name, "/cover#pre") {
					vacuous++
					problems = append(problems, "vacuous precondition: "+v.Ob.Name)
				} else {
					deadCovers[v.Ob.Fn] = append(deadCovers[v.Ob.Fn], v.Ob.Name)
				}
			} else if strings.Contains(v.Ob.Name, "/cover#ret") {
				liveRet[v.Ob.Fn] = true
			}
			if strings.Contains(v.Ob.Name, "/cover#ret") {
				hasRet[v.Ob.Fn] = true
			}
			continue
		}
		nObl++
		names = append(names, v.Ob.Name)
		solverMs += v.Ms
		entry := map[string]any{"name": v.Ob.Name, "status": v.Status, "solver": v.Solver, "ms": v.Ms, "bytes": v.Bytes}
		perOb = append(perOb, entry)
		if v.Status == "discharged" {
			nDis++
			bySolver[v.Solver]++
			if len(samples) < 6 {
				samples = append(samples, map[string]any{"obligation": v.Ob.Name, "at": v.Ob.Pos, "statement": v.Ob.Text, "solver": v.Solver, "ms": v.Ms})
			}
			if kf, ok := lookupKnown(known, v.Ob.Name); ok {
				// a known finding that no longer fails: fine, just say so
				fmt.Printf("NOTE: known finding no longer reproduces: %s (%s)\n", v.Ob.Name, kf.What)
			}
			continue
		}
		if kf, ok := lookupKnown(known, v.Ob.Name); ok {
			knownHit = append(knownHit, v.Ob.Name)
			fmt.Printf("KNOWN-FINDING: property=%s %s: %s\n", prop, v.Ob.Name, kf.What)
			nDis++ // accounted for: not part of the proof claim, listed separately
			entry["status"] = "known-finding"
			continue
		}
		// violation
		rp := filepath.Join(replayDir, fileSafe(v.Ob.Name)+".json")
		rec := map[string]any{"property": prop, "obligation": v.Ob.Name, "class": v.Ob.Class, "at": v.Ob.Pos, "statement": v.Ob.Text,
			"status": v.Status, "solver": v.Solver, "smt_file": v.SmtFile, "solver_output": truncate(v.Raw, 4000), "answers": v.Answers}
		suffix := ""
		if v.Status == "failed" {
			rec["model"] = v.Model
		}
		// an undecided obligation has no model, but a replay driver may still find an input on which the real code
		// breaks the clause (the real run and the clause evaluated on concrete values decide, not the candidate's origin)
		rep := tryReplay(e, prop, v)
		rec["replay"] = rep
		if rep == nil || rep["reproduced"] != true {
			suffix = " no-failing-input-found"
		}
		b, _ := json.MarshalIndent(rec, "", " ")
		os.WriteFile(rp, b, 0o644)
		violations = append(violations, fmt.Sprintf("VIOLATION property=%s replay=%s obligation=%s%s", prop, rp, v.Ob.Name, suffix))
	}
	// two obligations under one name would be indistinguishable in baselines, known findings and reports
	{
		cnt := map[string]int{}
		for _, n := range names {
			cnt[n]++
		}
		var dups []string
		for n, c := range cnt {
			if c > 1 {
				dups = append(dups, n)
			}
		}
		sort.Strings(dups)
		for _, n := range dups {
			problems = append(problems, "engine: obligation name generated more than once: "+n)
		}
	}
	for fn := range hasRet {
		if !liveRet[fn] {
			problems = append(problems, "vacuous contract: no return of "+displayKey(fn)+" is reachable under its assumptions")
		}
	}
	// obligations of the baseline that vanished
	if baseline != nil && !rebaseline {
		var missing []string
		for n := range baseline {
			if !present[n] && !extraHas(extras, n) {
				missing = append(missing, n)
			}
		}
		sort.Strings(missing)
		for _, n := range missing {
			rp := filepath.Join(replayDir, fileSafe(n)+".missing.json")
			b, _ := json.MarshalIndent(map[string]any{"property": prop, "obligation": n, "status": "missing", "explanation": "this obligation was discharged on the unchanged tree and is no longer generated: the function, loop, call site or contract it belongs to has gone"}, "", " ")
			os.WriteFile(rp, b, 0o644)
			violations = append(violations, fmt.Sprintf("VIOLATION property=%s replay=%s obligation=%s (obligation no longer generated) no-failing-input-found", prop, rp, n))
			nObl++
		}
	}
	for _, p := range problems {
		rp := filepath.Join(replayDir, fmt.Sprintf("problem-%d.json", len(violations)))
		b, _ := json.MarshalIndent(map[string]any{"property": prop, "problem": p}, "", " ")
		os.WriteFile(rp, b, 0o644)
		violations = append(violations, fmt.Sprintf("VIOLATION property=%s replay=%s %s no-failing-input-found", prop, rp, p))
		nObl++
	}
	for _, er := range res.engineErrs {
		rp := filepath.Join(replayDir, fmt.Sprintf("engine-%d.json", len(violations)))
		b, _ := json.MarshalIndent(map[string]any{"property": prop, "engine_error": er}, "", " ")
		os.WriteFile(rp, b, 0o644)
		violations = append(violations, fmt.Sprintf("VIOLATION property=%s replay=%s engine could not generate obligations: %s no-failing-input-found", prop, rp, er))
		nObl++
	}
	// extras
	var bounded []map[string]any
	for _, x := range extras {
		if x.Kind == "bounded" {
			bounded = append(bounded, map[string]any{"name": x.Name, "cases": x.Cases, "failures": len(x.Failures), "note": x.Note, "label": "bounded stand-in, not counted as proved"})
		}
		for _, n := range x.ObNames {
			nObl++
			names = append(names, n)
			if why, bad := x.ObFailed[n]; bad {
				if kf, ok := known[n]; ok {
					fmt.Printf("KNOWN-FINDING: property=%s %s: %s\n", prop, n, kf.What)
					knownHit = append(knownHit, n)
					nDis++
					continue
				}
				rp := filepath.Join(replayDir, fileSafe(n)+".json")
				b, _ := json.MarshalIndent(map[string]any{"property": prop, "obligation": n, "reason": why, "checker": x.Name}, "", " ")
				os.WriteFile(rp, b, 0o644)
				violations = append(violations, fmt.Sprintf("VIOLATION property=%s replay=%s obligation=%s no-failing-input-found", prop, rp, n))
			} else {
				nDis++
				bySolver[x.Name]++
			}
		}
		for i, f := range x.Failures {
			key := fmt.Sprintf("%s/case#%d", x.Name, i+1)
			rp := filepath.Join(replayDir, fileSafe(key)+".json")
			b, _ := json.MarshalIndent(map[string]any{"property": prop, "checker": x.Name, "failure": f}, "", " ")
			os.WriteFile(rp, b, 0o644)
			if kf, ok := known[x.Name+":"+f]; ok {
				fmt.Printf("KNOWN-FINDING: property=%s %s: %s\n", prop, f, kf.What)
				continue
			}
			violations = append(violations, fmt.Sprintf("VIOLATION property=%s replay=%s %s: %s", prop, rp, x.Name, f))
		}
	}
	if rebaseline {
		fns := map[string]*ssa.Function{}
		for _, t := range ts {
			if t.fn != nil {
				fns[keyOfFunction(t.fn)] = t.fn
			}
		}
		saveBaseSigs(e)
		saveBaseNames(fns)
		canon := map[string]bool{}
		for _, n := range names {
			if c := canonName(n); c != "" {
				canon[c] = true
			}
		}
		names = nil
		for c := range canon {
			names = append(names, c)
		}
		sort.Strings(names)
		os.MkdirAll(filepath.Join(verifDir, "baseline"), 0o755)
		os.WriteFile(filepath.Join(verifDir, "baseline", prop+".obligations"), []byte("# carrying obligations (stable names) discharged on the unchanged tree; regenerate only with `govc check "+prop+" --rebaseline`\n"+strings.Join(names, "\n")+"\n"), 0o644)
	}

	// evidence
	var assumptions []string
	assumptions = append(assumptions,
		"Go semantics = go/types + go/ssa (x/tools v0.29.0); the VC generator /verif/engine itself",
		"integers: mathematical Int with explicit wrap-around for + - * and conversions at the static type; float64 modelled as Real (NaN/Inf and rounding excluded)",
		"slices are immutable sequence values (no aliasing through shared backing arrays; stores to slice elements are reported as abstracted); strings/[]byte contents are an uninterpreted sort with length and a strict total order",
		"pointer receivers are non-nil; interface values of repository interface types hold one of the repository's own implementations (closed world)",
		"termination is not verified; goroutines are not executed; panics inside dependencies are not modelled")
	var tnames []string
	for k := range res.trustedUsed {
		tnames = append(tnames, k)
	}
	sort.Strings(tnames)
	var trusted []string
	for _, k := range tnames {
		trusted = append(trusted, "trusted contract: "+k+" -- "+res.trustedUsed[k])
	}
	var un []string
	for k := range res.uncontracted {
		un = append(un, k)
	}
	sort.Strings(un)
	for _, k := range un {
		trusted = append(trusted, "no contract (call = havoc of all memory, unconstrained result): "+k)
	}
	for f, a := range res.abstracted {
		assumptions = append(assumptions, "abstracted in "+f+": "+strings.Join(a, "; "))
	}
	sort.Strings(assumptions[5:])
	for _, a := range dedup(res.assumed) {
		assumptions = append(assumptions, "assumed invariant (clause `assume`): "+a)
	}
	if len(res.nosafety) > 0 {
		assumptions = append(assumptions, "panic-freedom (nil/bounds/type assertions) is assumed, not claimed under this property, for: "+strings.Join(res.nosafety, ", "))
	}
	axs := e.usedAxioms()
	for _, a := range axs {
		assumptions = append(assumptions, "axiom (assumed, not proved): "+a)
	}
	cov := map[string]any{
		"obligations":  nObl,
		"discharged":   nDis - len(knownHit),
		"checker_cmd":  fmt.Sprintf("/verif/bin/govc check %s --tier %s  (per obligation: z3-new 5.1.0 | z3 4.8.12 | cvc5 1.0 raced on work/%s/<obligation>.smt2)", prop, tier, prop),
		"trusted_base": append([]string{"z3 4.8.12", "z3 5.1.0", "cvc5 1.0", "go/ssa", "govc VC generator"}, trusted...),
		"functions_under_contract": res.funcs,
		"by_solver":    bySolver,
		"solver_ms":    solverMs,
		"per_obligation": perOb,
		"samples":      samples,
		"known_findings_matched": knownHit,
		"bounded_standins": bounded,
		"explanation":  "every obligation is generated from /repo's current SSA and the contracts in zz_verif_contracts.go; discharged = unsat of (context and not goal)",
	}
	if len(knownHit) > 0 {
		cov["obligations"] = nObl - len(knownHit)
	}
	if len(samples) == 0 {
		cov["samples"] = []any{"no obligation discharged"}
	}
	ev := evidence{PropertyID: prop, Tier: tier, Seed: seed, Level: "proof", Coverage: cov, Assumptions: assumptions, WallS: time.Since(t0).Seconds(), Violations: len(violations)}
	os.MkdirAll(filepath.Join(verifDir, "evidence"), 0o755)
	b, _ := json.MarshalIndent(ev, "", " ")
	os.WriteFile(filepath.Join(verifDir, "evidence", prop+".json"), b, 0o644)

	fmt.Printf("property %s tier %s: %d functions under contract, %d obligations, %d discharged, %d known findings, %d violations, %.1fs\n",
		prop, tier, len(res.funcs), nObl, nDis-len(knownHit), len(knownHit), len(violations), time.Since(t0).Seconds())
	if nObl == 0 {
		fmt.Printf("VIOLATION property=%s replay=%s no obligations were generated (vacuous check) no-failing-input-found\n", prop, filepath.Join(replayDir, "vacuous.json"))
		os.WriteFile(filepath.Join(replayDir, "vacuous.json"), []byte(`{"problem":"no obligations generated"}`), 0o644)
		return 1
	}
	if len(violations) > 0 {
		for _, v := range violations {
			fmt.Println(v)
		}
		return 1
	}
	return 0
}

func extraHas(xs []*extraResult, n string) bool {
	for _, x := range xs {
		for _, m := range x.ObNames {
			if m == n {
				return true
			}
		}
	}
	return false
}

func truncate(s string, n int) string {
	if len(s) > n {
		return s[:n] + "..."
	}
	return s
}

func (e *Engine) usedAxioms() []string {
	var out []string
	for _, a := range e.cs.Axioms {
		if a.Lemma {
			continue
		}
		if e.axiomUsed[a.Name] {
			out = append(out, a.Name+": "+a.Text)
		}
	}
	return out
}

// cmdErrFuncs lists functions of a package whose results include `error` (helper for writing errflow contracts)
func cmdErrFuncs(args []string) int {
	e, err := loadEngine(repoDir(), filepath.Join(verifDir, "spec", "trusted"))
	if err != nil {
		fmt.Fprintln(os.Stderr, err)
		return 2
	}
	pkg := e.spkgs[repoMod+"/"+args[0]]
	var out []string
	seen := map[string]bool{}
	var visit func(fn *ssa.Function)
	visit = func(fn *ssa.Function) {
		if fn == nil || len(fn.Blocks) == 0 || seen[fn.String()] || fn.Synthetic != "" {
			return
		}
		seen[fn.String()] = true
		pos := e.fset.Position(fn.Pos())
		if strings.HasSuffix(pos.Filename, "_test.go") || strings.Contains(pos.Filename, "test_") {
			return
		}
		res := fn.Signature.Results()
		hasErr := false
		for i := 0; i < res.Len(); i++ {
			if isErrorType(res.At(i).Type()) {
				hasErr = true
			}
		}
		if hasErr {
			out = append(out, displayKey(keyOfFunction(fn))+"\t"+filepath.Base(pos.Filename))
		}
		for _, a := range fn.AnonFuncs {
			visit(a)
		}
	}
	for _, m := range pkg.Members {
		switch x := m.(type) {
		case *ssa.Function:
			visit(x)
		case *ssa.Type:
			if nt, ok := x.Type().(*types.Named); ok {
				for i := 0; i < nt.NumMethods(); i++ {
					visit(e.prog.FuncValue(nt.Method(i)))
				}
			}
		}
	}
	sort.Strings(out)
	for _, o := range out {
		fmt.Println(o)
	}
	return 0
}
