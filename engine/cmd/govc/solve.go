package main

import (
	"context"
	"fmt"
	"os"
	"os/exec"
	"path/filepath"
	"strings"
	"sync"
	"time"
)

type Verdict struct {
	Ob       *Obligation
	Status   string // discharged, failed, undecided, cover-ok, cover-vacuous
	Solver   string
	Ms       int64
	Bytes    int
	SmtFile  string
	Model    string
	Answers  map[string]string // solver -> answer (thorough)
	Raw      string
}

type solverSpec struct {
	name string
	args func(file string, timeoutS int) []string
}

var solvers = []solverSpec{
	{"z3-new-5.1.0", func(f string, t int) []string { return []string{"z3-new", fmt.Sprintf("-T:%d", t), f} }},
	{"z3-4.8.12", func(f string, t int) []string { return []string{"z3", fmt.Sprintf("-T:%d", t), f} }},
	{"cvc5-1.0", func(f string, t int) []string {
		return []string{"cvc5", fmt.Sprintf("--tlimit=%d", t*1000), "--produce-models", f}
	}},
}

func runSolver(ctx context.Context, s solverSpec, file string, timeoutS int) (answer string, out string) {
	args := s.args(file, timeoutS)
	cmd := exec.CommandContext(ctx, args[0], args[1:]...)
	b, _ := cmd.CombinedOutput()
	out = string(b)
	first := ""
	for _, l := range strings.Split(out, "\n") {
		l = strings.TrimSpace(l)
		if l == "" || strings.HasPrefix(l, "WARNING") {
			continue
		}
		first = l
		break
	}
	switch first {
	case "sat", "unsat", "unknown":
		return first, out
	}
	if strings.Contains(first, "timeout") {
		return "timeout", out
	}
	if ctx.Err() != nil {
		return "cancelled", out
	}
	return "error", out
}

// race runs all solvers on the file; the first definite answer (sat/unsat) wins.
// In `all` mode every solver's answer is collected.
func race(file string, timeoutS int, all bool, wantSatModel bool) (answer, solver, raw string, answers map[string]string) {
	ctx, cancel := context.WithTimeout(context.Background(), time.Duration(timeoutS+2)*time.Second)
	defer cancel()
	type res struct {
		s   string
		ans string
		out string
	}
	ch := make(chan res, len(solvers))
	for _, s := range solvers {
		s := s
		go func() {
			a, o := runSolver(ctx, s, file, timeoutS)
			ch <- res{s.name, a, o}
		}()
	}
	answers = map[string]string{}
	answer = "unknown"
	for i := 0; i < len(solvers); i++ {
		r := <-ch
		answers[r.s] = r.ans
		if r.ans == "sat" || r.ans == "unsat" {
			if answer != "sat" && answer != "unsat" {
				answer, solver, raw = r.ans, r.s, r.out
				if !all {
					cancel()
					// drain
					go func(n int) {
						for j := 0; j < n; j++ {
							<-ch
						}
					}(len(solvers) - i - 1)
					return
				}
			} else if answer != r.ans {
				answer = "disagree"
				raw += "\n--- " + r.s + ": " + r.out
			}
		} else if answer == "unknown" && raw == "" {
			raw = r.s + ": " + r.out
		}
	}
	return
}

func solveAll(obls []*Obligation, workDir string, timeoutS int, thorough bool, par int) []*Verdict {
	os.MkdirAll(workDir, 0o755)
	out := make([]*Verdict, len(obls))
	var wg sync.WaitGroup
	sem := make(chan struct{}, par)
	for i, o := range obls {
		i, o := i, o
		wg.Add(1)
		sem <- struct{}{}
		go func() {
			defer wg.Done()
			defer func() { <-sem }()
			out[i] = solveOne(o, workDir, timeoutS, thorough)
		}()
	}
	wg.Wait()
	// an obligation that ran into the time limit is tried once more with three times the limit before it is called
	// undecided: a loaded machine must not turn a proof that usually takes a few seconds into an alarm
	for i, v := range out {
		if v != nil && v.Status == "undecided" && v.Solver != "SOLVER-ERROR" && v.Ms >= int64(timeoutS)*900 {
			i, o := i, obls[i]
			wg.Add(1)
			sem <- struct{}{}
			go func() {
				defer wg.Done()
				defer func() { <-sem }()
				r := solveOne(o, workDir, timeoutS*3, thorough)
				r.Ms += out[i].Ms
				out[i] = r
			}()
		}
	}
	wg.Wait()
	return out
}

func fileSafe(s string) string {
	r := strings.NewReplacer("/", "_", "(", "", ")", "", "*", "p", " ", "_", "#", "-", "@", "-", "[", "", "]", "", "$", "S")
	s = r.Replace(s)
	if len(s) > 150 {
		s = s[:150]
	}
	return s
}

// fileOf: the query file of an obligation. Two obligations with the same name (which should not happen, but has: a
// callee reachable under two spellings) must never share a file - the second would overwrite the first before it is solved
var fileSeen = map[string]int{}
var fileMu sync.Mutex

func fileOf(workDir string, o *Obligation) string {
	fileMu.Lock()
	defer fileMu.Unlock()
	if o.file != "" {
		return o.file
	}
	base := filepath.Join(workDir, fileSafe(o.Name))
	n := fileSeen[base]
	fileSeen[base] = n + 1
	if n > 0 {
		base += fmt.Sprintf("~%d", n)
	}
	o.file = base + ".smt2"
	return o.file
}

func solveOne(o *Obligation, workDir string, timeoutS int, thorough bool) *Verdict {
	fx := o.fx
	var modelTerms []string
	for _, p := range fx.fn.Params {
		if v, ok := fx.vals[p]; ok {
			modelTerms = append(modelTerms, v.L...)
		}
	}
	text := fx.c.render(o.Upto, o.Goal, "", true, modelTerms)
	file := fileOf(workDir, o)
	os.WriteFile(file, []byte(text), 0o644)
	v := &Verdict{Ob: o, SmtFile: file, Bytes: len(text)}
	t0 := time.Now()
	tmo := timeoutS
	if o.Expect == "sat" && tmo > 3 {
		tmo = 3
	}
	ans, solver, raw, answers := race(file, tmo, thorough, true)
	v.Ms = time.Since(t0).Milliseconds()
	v.Solver = solver
	v.Answers = answers
	v.Raw = raw
	if o.Expect == "sat" {
		switch ans {
		case "sat":
			v.Status = "cover-ok"
		case "unsat":
			v.Status = "cover-vacuous"
		default:
			v.Status = "cover-ok" // undecided covers are not failures (quantified contexts rarely produce models)
			v.Solver = "undecided"
		}
		return v
	}
	switch ans {
	case "unsat":
		v.Status = "discharged"
	case "sat":
		v.Status = "failed"
		if i := strings.Index(raw, "\n"); i >= 0 {
			v.Model = strings.TrimSpace(raw[i+1:])
		}
	case "disagree":
		v.Status = "solver-disagreement"
	default:
		v.Status = "undecided"
		allErr := len(answers) > 0
		for _, a := range answers {
			if a != "error" {
				allErr = false
			}
		}
		if allErr {
			v.Solver = "SOLVER-ERROR"
		}
	}
	return v
}
