package main

// Replay of counterexamples on the real code, for functions over plain values (bool, integers, string, []byte,
// []string in; the same plus pointers to scalars and error out).
//
// An input is a candidate failing input when it comes from the solver (a model of the failed obligation, or the
// candidate assignment a solver reports with `unknown`) or from a small pool of boundary values of the parameter types.
// Whatever its source, it only counts once the REAL function has been run on it (go test -overlay, nothing is written
// into the repository) and the failed contract clause, evaluated by the solver on the concrete input and the concrete
// output of the real function, is REFUTED (asserting the clause is unsatisfiable). A clause that the solver cannot
// refute on concrete values leaves the input not reproduced. For safety obligations the real call has to panic.

import (
	"encoding/json"
	"fmt"
	"go/types"
	"math/big"
	"os"
	"os/exec"
	"path/filepath"
	"regexp"
	"sort"
	"strings"

	"golang.org/x/tools/go/ssa"
)

type cval struct {
	Kind  string // bool int string bytes strings ptr error
	B     bool
	I     *big.Int
	S     []byte
	Nil   bool
	SS    [][]byte
	Inner *cval
	Msg   string
}

func (c cval) String() string {
	switch c.Kind {
	case "bool":
		return fmt.Sprint(c.B)
	case "int":
		return c.I.String()
	case "string":
		return fmt.Sprintf("%q", string(c.S))
	case "bytes":
		if c.Nil {
			return "[]byte(nil)"
		}
		return fmt.Sprintf("%v", c.S)
	case "strings":
		if c.Nil {
			return "[]string(nil)"
		}
		var p []string
		for _, s := range c.SS {
			p = append(p, fmt.Sprintf("%q", string(s)))
		}
		return "[" + strings.Join(p, " ") + "]"
	case "ptr":
		if c.Nil {
			return "nil"
		}
		return "&" + c.Inner.String()
	case "error":
		if c.Nil {
			return "nil"
		}
		return "error(" + c.Msg + ")"
	}
	return "?"
}

// bindStr asserts the length and the bytes of a Str term
func (fx *FnExec) bindStr(term string, s []byte) {
	fx.c.assert(sEq(app("str_len", term), intLit(int64(len(s)))))
	for i, b := range s {
		fx.c.assert(sEq(app("str_at", term, intLit(int64(i))), intLit(int64(b))))
	}
	if len(s) == 0 {
		fx.c.assert(sEq(term, "str_empty"))
	}
}

// bind asserts that the symbolic value v is the concrete value c (in heap h for what a pointer points to)
func (fx *FnExec) bind(h *Heap, v Val, t types.Type, c cval) error {
	switch c.Kind {
	case "bool":
		if c.B {
			fx.c.assert(v.L[0])
		} else {
			fx.c.assert(sNot(v.L[0]))
		}
	case "int":
		fx.c.assert(sEq(v.L[0], bigLit(c.I)))
	case "string":
		fx.bindStr(v.L[0], c.S)
	case "bytes":
		// leaves: nil, len, arr
		if len(v.L) != 3 {
			return fmt.Errorf("unexpected representation of a byte slice (%d leaves)", len(v.L))
		}
		if c.Nil {
			fx.c.assert(v.L[0])
		} else {
			fx.c.assert(sNot(v.L[0]))
		}
		fx.c.assert(sEq(v.L[1], intLit(int64(len(c.S)))))
		for i, b := range c.S {
			fx.c.assert(sEq(sSel(v.L[2], intLit(int64(i))), intLit(int64(b))))
		}
	case "strings":
		if len(v.L) != 3 {
			return fmt.Errorf("unexpected representation of a string slice (%d leaves)", len(v.L))
		}
		if c.Nil {
			fx.c.assert(v.L[0])
		} else {
			fx.c.assert(sNot(v.L[0]))
		}
		fx.c.assert(sEq(v.L[1], intLit(int64(len(c.SS)))))
		for i, s := range c.SS {
			fx.bindStr(sSel(v.L[2], intLit(int64(i))), s)
		}
	case "ptr":
		if c.Nil {
			fx.c.assert(sEq(v.L[0], "0"))
			return nil
		}
		fx.c.assert(app(">", v.L[0], "0"))
		et := elemOf(t)
		return fx.bind(h, fx.loadCell(h, v.L[0], et), et, *c.Inner)
	case "error":
		if len(v.L) != 2 {
			return fmt.Errorf("unexpected representation of an error (%d leaves)", len(v.L))
		}
		if c.Nil {
			fx.c.assert(sEq(v.L[0], "0"))
		} else {
			fx.c.assert(sNot(sEq(v.L[0], "0")))
		}
	default:
		return fmt.Errorf("cannot bind a value of kind %q", c.Kind)
	}
	return nil
}

// goLit renders a concrete input as a Go expression of type t (in-package test: unqualified names of the own package)
func goLit(c cval, t types.Type, pkg *types.Package) string {
	ts := types.TypeString(t, func(p *types.Package) string {
		if p == pkg {
			return ""
		}
		return p.Name()
	})
	switch c.Kind {
	case "bool":
		return fmt.Sprintf("%s(%v)", ts, c.B)
	case "int":
		return fmt.Sprintf("%s(%s)", ts, c.I.String())
	case "string":
		return fmt.Sprintf("%s(%s)", ts, goBytesStr(c.S))
	case "bytes":
		if c.Nil {
			return fmt.Sprintf("%s(nil)", ts)
		}
		var p []string
		for _, b := range c.S {
			p = append(p, fmt.Sprint(b))
		}
		return fmt.Sprintf("%s{%s}", ts, strings.Join(p, ", "))
	case "strings":
		if c.Nil {
			return fmt.Sprintf("%s(nil)", ts)
		}
		var p []string
		for _, s := range c.SS {
			p = append(p, goBytesStr(s))
		}
		return fmt.Sprintf("%s{%s}", ts, strings.Join(p, ", "))
	}
	return "nil"
}

func goBytesStr(s []byte) string {
	var sb strings.Builder
	sb.WriteString("\"")
	for _, b := range s {
		sb.WriteString(fmt.Sprintf("\\x%02x", b))
	}
	sb.WriteString("\"")
	return sb.String()
}

// ---- pool of boundary values ----

func poolFor(t types.Type) []cval {
	switch plainKind(t) {
	case "bool":
		return []cval{{Kind: "bool", B: false}, {Kind: "bool", B: true}}
	case "int":
		lo, hi, _ := intRange(t)
		var out []cval
		seen := map[string]bool{}
		// an enumeration type: its declared constants, and one value that is none of them
		if n, ok := unalias(t).(*types.Named); ok && n.Obj().Pkg() != nil {
			var max *big.Int
			sc := n.Obj().Pkg().Scope()
			for _, name := range sc.Names() {
				if c, ok := sc.Lookup(name).(*types.Const); ok && types.Identical(c.Type(), t) {
					if i, ok := new(big.Int).SetString(c.Val().ExactString(), 10); ok && !seen[i.String()] {
						seen[i.String()] = true
						out = append(out, cval{Kind: "int", I: i})
						if max == nil || i.Cmp(max) > 0 {
							max = i
						}
					}
				}
			}
			if len(out) > 0 {
				if nx := new(big.Int).Add(max, big.NewInt(1)); nx.Cmp(hi) <= 0 {
					out = append(out, cval{Kind: "int", I: nx})
				}
				return out
			}
		}
		add := func(i *big.Int) {
			if i.Cmp(lo) < 0 || i.Cmp(hi) > 0 || seen[i.String()] {
				return
			}
			seen[i.String()] = true
			out = append(out, cval{Kind: "int", I: i})
		}
		for _, k := range []int64{0, 1, 2, 3, 4, 5, 6, 7, 8, 9, 10, -1, -2, 127, 128, 255, 256, -128, -129, 32767, 32768, 65535, 65536, 1 << 31, 1<<31 - 1, -(1 << 31), 1 << 32, 1<<32 - 1, 1<<62 + 12345, -(1 << 40) - 7, 34, 92, 110} {
			add(big.NewInt(k))
		}
		add(lo)
		add(hi)
		add(new(big.Int).Add(lo, big.NewInt(1)))
		add(new(big.Int).Sub(hi, big.NewInt(1)))
		return out
	case "string":
		var out []cval
		for _, s := range []string{"", "a", "ab", "abc", "\\", "\"", "\\\\", "\\\"", "\\n", "\\t", "\\r", "\\f", "\\a", "a\\\\nb", "a\\\\tb", "\"a\"", "\"\"", "\"a\\\"b\"", "\"a\\\\\"", "\"\\\\n\"", "\"\\\\\\n\"", "\"\\n\"", "\"\\x\"", "\"a\\\\\\\\b\"", "\"\\\\t\\\\\"", "a\x00b", "\xff", "é", "A", "aB", "a\nb", "a\tb", "\"a\nb\"", "\"\t\"", "\"\\\"", "\"", "\"\\"} {
			out = append(out, cval{Kind: "string", S: []byte(s)})
		}
		return out
	case "bytes":
		var out []cval
		out = append(out, cval{Kind: "bytes", Nil: true})
		for _, s := range [][]byte{{}, {0}, {1}, {0x80}, {0xff}, {0, 0}, {1, 2}, {0, 0, 0, 0}, {1, 0, 0, 0}, {0, 0, 0, 0x80}, {0xff, 0xff, 0xff, 0xff}, {0xff, 0xff, 0xff, 0x7f}, {1, 2, 3, 4}, {0, 0, 0, 0, 0, 0, 0, 0},
			{1, 0, 0, 0, 0, 0, 0, 0}, {0, 0, 0, 0, 0, 0, 0, 0x80}, {0xff, 0xff, 0xff, 0xff, 0xff, 0xff, 0xff, 0xff}, {0xff, 0xff, 0xff, 0xff, 0xff, 0xff, 0xff, 0x7f}, {1, 2, 3, 4, 5, 6, 7, 8}, {0, 0, 0, 0x80, 0, 0, 0, 0},
			{1, 2, 3}, {1, 2, 3, 4, 5}, {'a'}, {'a', 'b', 'c'}, {1, 'a'}, {2, 0, 0, 0, 0x80}, {3, 0, 0, 0, 0, 0, 0, 0, 0x80}, {0, 'x'}, {5, 1}, {5, 0},
			{0, 0}, {1, 0, 'a'}, {2, 0, 'a', 'b'}, {2, 0, 'a'}, {3, 0, 'a', 'b'}, {1, 0, 'a', 1, 0, 'b'}, {0, 0, 0, 0}, {1, 0, 'a', 0, 0}, {0xff, 0xff, 'a'}, {1, 0, 'a', 1}, {1, 0, 'a', 2, 0, 'b'}, {0, 1, 'a'}, {1, 1}} {
			out = append(out, cval{Kind: "bytes", S: s})
		}
		return out
	case "strings":
		var out []cval
		out = append(out, cval{Kind: "strings", Nil: true})
		for _, ss := range [][]string{{}, {""}, {"a"}, {"", ""}, {"a", "b"}, {"ab"}, {"a", ""}, {"", "a"}, {"a", "b", "c"}, {"\x00"}, {"\x01\x00a"}, {"a\x00", "b"}, {strings.Repeat("x", 255)}, {strings.Repeat("y", 256)}, {strings.Repeat("z", 257), "q"}} {
			var bs [][]byte
			for _, s := range ss {
				bs = append(bs, []byte(s))
			}
			out = append(out, cval{Kind: "strings", SS: bs})
		}
		return out
	}
	return nil
}

// poolInputs: combinations of pool values, every value of every parameter occurring at least once, at most max tuples
func poolInputs(ts []types.Type, max int) [][]cval {
	if len(ts) == 0 {
		return [][]cval{{}}
	}
	pools := make([][]cval, len(ts))
	total := 1
	for i, t := range ts {
		pools[i] = poolFor(t)
		if len(pools[i]) == 0 {
			return nil
		}
		if total <= max {
			total *= len(pools[i])
		}
	}
	var out [][]cval
	if total <= max {
		idx := make([]int, len(ts))
		for {
			tup := make([]cval, len(ts))
			for i := range ts {
				tup[i] = pools[i][idx[i]]
			}
			out = append(out, tup)
			k := len(ts) - 1
			for k >= 0 {
				idx[k]++
				if idx[k] < len(pools[k]) {
					break
				}
				idx[k] = 0
				k--
			}
			if k < 0 {
				break
			}
		}
		return out
	}
	// deterministic pseudo-random sample (fixed seed: a replay has to be repeatable)
	x := uint64(0x9e3779b97f4a7c15)
	next := func(n int) int {
		x ^= x << 13
		x ^= x >> 7
		x ^= x << 17
		return int(x % uint64(n))
	}
	for len(out) < max {
		tup := make([]cval, len(ts))
		for i := range ts {
			tup[i] = pools[i][next(len(pools[i]))]
		}
		out = append(out, tup)
	}
	return out
}

// ---- running the real function ----

type realOut struct {
	Panic   string
	Results []cval
}

var reReplayLine = regexp.MustCompile(`(?m)^VERIF-REPLAY (\d+) (.*)$`)

// runReal calls the real function on every input (one go test run, injected with -overlay) and returns what it did
func runReal(e *Engine, fn *ssa.Function, inputs [][]cval, work string) ([]realOut, string, error) {
	pkg := fn.Pkg.Pkg
	sig := fn.Signature
	var sb strings.Builder
	sb.WriteString("package " + pkg.Name() + "\n\nimport (\n\t\"encoding/json\"\n\t\"fmt\"\n\t\"testing\"\n)\n\n")
	sb.WriteString(`func verifReplayEnc(v any) any {
	switch x := v.(type) {
	case nil:
		return map[string]any{"nil": true}
	case error:
		return map[string]any{"err": x.Error()}
	case []byte:
		if x == nil {
			return map[string]any{"nil": true, "bytes": []int{}}
		}
		b := make([]int, len(x))
		for i := range x {
			b[i] = int(x[i])
		}
		return map[string]any{"bytes": b}
	case []string:
		if x == nil {
			return map[string]any{"nil": true, "strings": [][]int{}}
		}
		out := make([][]int, len(x))
		for i := range x {
			out[i] = make([]int, len(x[i]))
			for j := 0; j < len(x[i]); j++ {
				out[i][j] = int(x[i][j])
			}
		}
		return map[string]any{"strings": out}
	case string:
		b := make([]int, len(x))
		for i := 0; i < len(x); i++ {
			b[i] = int(x[i])
		}
		return map[string]any{"str": b}
	case bool:
		return map[string]any{"bool": x}
	}
	return map[string]any{"int": fmt.Sprint(v)}
}

func verifReplayCase(i int, f func() []any) {
	var res []any
	pan := ""
	func() {
		defer func() {
			if r := recover(); r != nil {
				pan = fmt.Sprint(r)
			}
		}()
		res = f()
	}()
	b, _ := json.Marshal(map[string]any{"panic": pan, "results": res})
	fmt.Printf("VERIF-REPLAY %d %s\n", i, b)
}

`)
	sb.WriteString("func TestVerifReplay(t *testing.T) {\n")
	nres := sig.Results().Len()
	for i, in := range inputs {
		var args []string
		off := 0
		callee := fn.Name()
		if sig.Recv() != nil {
			callee = "(" + goLit(in[0], sig.Recv().Type(), pkg) + ")." + fn.Name()
			off = 1
		}
		for j := 0; j < sig.Params().Len(); j++ {
			args = append(args, goLit(in[off+j], sig.Params().At(j).Type(), pkg))
		}
		call := callee + "(" + strings.Join(args, ", ") + ")"
		var rs, encs []string
		for k := 0; k < nres; k++ {
			rs = append(rs, fmt.Sprintf("r%d", k))
			rt := sig.Results().At(k).Type()
			switch {
			case strings.HasPrefix(plainKind(rt), "ptr:"):
				encs = append(encs, fmt.Sprintf("func() any { if r%d == nil { return map[string]any{\"nil\": true} }; return map[string]any{\"ptr\": verifReplayEnc(%s(*r%d))} }()", k, baseConv(elemOf(rt)), k))
			case plainKind(rt) == "error":
				encs = append(encs, fmt.Sprintf("func() any { if r%d == nil { return map[string]any{\"nil\": true} }; return map[string]any{\"err\": r%d.Error()} }()", k, k))
			default:
				encs = append(encs, fmt.Sprintf("verifReplayEnc(%s(r%d))", baseConv(rt), k))
			}
		}
		if nres == 0 {
			sb.WriteString(fmt.Sprintf("\tverifReplayCase(%d, func() []any { %s; return []any{} })\n", i, call))
		} else {
			sb.WriteString(fmt.Sprintf("\tverifReplayCase(%d, func() []any { %s := %s; return []any{%s} })\n", i, strings.Join(rs, ", "), call, strings.Join(encs, ", ")))
		}
	}
	sb.WriteString("}\n")
	os.MkdirAll(work, 0o755)
	testFile := filepath.Join(work, "replay_test.go")
	os.WriteFile(testFile, []byte(sb.String()), 0o644)
	repo := repoDir()
	rel := strings.TrimPrefix(strings.TrimPrefix(pkg.Path(), repoMod), "/")
	ov := map[string]map[string]string{"Replace": {filepath.Join(repo, rel, "zz_verif_replay_test.go"): testFile}}
	b, _ := json.Marshal(ov)
	ovPath := filepath.Join(work, "overlay.json")
	os.WriteFile(ovPath, b, 0o644)
	cmd := exec.Command("go", "test", "-tags", "verif", "-overlay", ovPath, "-vet=off", "-count=1", "-timeout", "120s", "-v", "-run", "^TestVerifReplay$", "./"+rel+"/")
	cmd.Dir = repo
	cmd.Env = append(os.Environ(), "GOFLAGS=-mod=mod", "GOPROXY=off", "GOSUMDB=off", "GOTOOLCHAIN=local")
	outB, err := cmd.CombinedOutput()
	out := string(outB)
	os.WriteFile(filepath.Join(work, "output.txt"), outB, 0o644)
	res := make([]realOut, len(inputs))
	got := 0
	for _, m := range reReplayLine.FindAllStringSubmatch(out, -1) {
		var i int
		fmt.Sscan(m[1], &i)
		var rec struct {
			Panic   string           `json:"panic"`
			Results []map[string]any `json:"results"`
		}
		if json.Unmarshal([]byte(m[2]), &rec) != nil || i < 0 || i >= len(inputs) {
			continue
		}
		got++
		res[i].Panic = rec.Panic
		for k, r := range rec.Results {
			res[i].Results = append(res[i].Results, decodeReal(r, sig.Results().At(k).Type()))
		}
	}
	if got != len(inputs) {
		tail := out
		if len(tail) > 800 {
			tail = tail[len(tail)-800:]
		}
		return nil, testFile, fmt.Errorf("replay harness did not complete (%v): %s", err, strings.TrimSpace(tail))
	}
	return res, testFile, nil
}

// baseConv: conversion of a (possibly named) plain type to its underlying basic type, for encoding
func baseConv(t types.Type) string {
	switch u := under(t).(type) {
	case *types.Basic:
		return u.Name()
	case *types.Slice:
		if plainKind(t) == "bytes" {
			return "[]byte"
		}
		return "[]string"
	}
	return ""
}

func ints(v any) []byte {
	var out []byte
	if l, ok := v.([]any); ok {
		for _, x := range l {
			if f, ok := x.(float64); ok {
				out = append(out, byte(int(f)))
			}
		}
	}
	return out
}

func decodeReal(r map[string]any, t types.Type) cval {
	k := plainKind(t)
	switch {
	case k == "bool":
		b, _ := r["bool"].(bool)
		return cval{Kind: "bool", B: b}
	case k == "int":
		i := new(big.Int)
		s, _ := r["int"].(string)
		i.SetString(s, 10)
		return cval{Kind: "int", I: i}
	case k == "string":
		return cval{Kind: "string", S: ints(r["str"])}
	case k == "bytes":
		n, _ := r["nil"].(bool)
		return cval{Kind: "bytes", Nil: n, S: ints(r["bytes"])}
	case k == "strings":
		n, _ := r["nil"].(bool)
		c := cval{Kind: "strings", Nil: n}
		if l, ok := r["strings"].([]any); ok {
			for _, x := range l {
				c.SS = append(c.SS, ints(x))
			}
		}
		return c
	case k == "error":
		if n, _ := r["nil"].(bool); n {
			return cval{Kind: "error", Nil: true}
		}
		m, _ := r["err"].(string)
		return cval{Kind: "error", Msg: m}
	case strings.HasPrefix(k, "ptr:"):
		if n, _ := r["nil"].(bool); n {
			return cval{Kind: "ptr", Nil: true}
		}
		inner, _ := r["ptr"].(map[string]any)
		c := decodeReal(inner, elemOf(t))
		return cval{Kind: "ptr", Inner: &c}
	}
	return cval{}
}

// ---- judging a real run by the contract ----

// replayCtx prepares a context in which the parameters are the concrete input. It returns the executor, the term of
// the conjunction of the preconditions, and the parameter values
func (e *Engine) replayCtx(fn *ssa.Function, con *Contract, in []cval) (*FnExec, string, error) {
	fx := e.newFnExec(fn, con)
	fx.rename, fx.baseParams = renamesFor(fx.key, fn)
	fx.cur = fx.entry.clone()
	fx.curReach = tTrue
	for i, p := range fn.Params {
		v := fx.freshVal(p.Type(), "p."+p.Name())
		fx.vals[p] = v
		fx.params[p.Name()] = v
		if i < len(fx.baseParams) && fx.baseParams[i] != p.Name() {
			if _, clash := fx.params[fx.baseParams[i]]; !clash {
				fx.params[fx.baseParams[i]] = v
			}
		}
		fx.c.assert(fx.wellTyped(v, &fx.cur))
		if err := fx.bind(&fx.cur, v, p.Type(), in[i]); err != nil {
			return nil, "", err
		}
	}
	alloc0 := fx.heapVar(&fx.cur, "$alloc", "Int")
	fx.c.assert(app(">", alloc0, "0"))
	fx.allocName = alloc0
	var pre []string
	for _, r := range con.Req {
		env := fx.specEnv(&fx.cur, nil, nil)
		t, err := env.evalBool(r.Text)
		if err != nil {
			return nil, "", err
		}
		pre = append(pre, t)
	}
	fx.entry = fx.cur.clone()
	return fx, sAnd(pre...), nil
}

func askSolvers(text, file string, timeoutS int) string {
	os.WriteFile(file, []byte(text), 0o644)
	ans, _, _, _ := race(file, timeoutS, false, false)
	return ans
}

// judgeQueries: the three queries that judge one real run by the failed clause. Built sequentially (the symbolic
// executor shares engine state and is not safe for concurrent use); only the solving runs in parallel.
type judgeQ struct {
	pre, sanity, clause string // SMT texts ("" = no precondition to establish)
	err                 error
}

func (e *Engine) judgeQueries(fn *ssa.Function, con *Contract, clause *Clause, in []cval, out []cval) judgeQ {
	fx, pre, err := e.replayCtx(fn, con, in)
	if err != nil {
		return judgeQ{err: err}
	}
	var q judgeQ
	if pre != tTrue {
		// the precondition has to hold for this input: its negation must be unsatisfiable
		q.pre = fx.c.render(fx.c.mark(), pre, "", false, nil)
		fx.c.assert(pre)
	}
	if con.Flags["pure"] == "" {
		fx.havocAll(&fx.cur)
	}
	resT := fn.Signature.Results()
	var results []Val
	for k := 0; k < resT.Len(); k++ {
		rv := fx.freshVal(resT.At(k).Type(), fmt.Sprintf("out%d", k))
		fx.c.assert(fx.wellTyped(rv, &fx.cur))
		if err := fx.bind(&fx.cur, rv, resT.At(k).Type(), out[k]); err != nil {
			return judgeQ{err: err}
		}
		results = append(results, rv)
	}
	// sanity: the concrete facts alone must not be contradictory (that would make every clause "refuted")
	q.sanity = fx.c.render(fx.c.mark(), tFalse, "", false, nil)
	env := fx.specEnv(&fx.cur, &fx.entry, results)
	t, err := env.evalBool(clause.Text)
	if err != nil {
		return judgeQ{err: err}
	}
	fx.c.assert(t)
	q.clause = fx.c.render(fx.c.mark(), tFalse, "", false, nil)
	return q
}

// judge: "refuted" when the clause is definitely false on the concrete input and real output, "pre-not-established"
// when the input is not known to satisfy the precondition, "inconclusive" otherwise
func judge(q judgeQ, work string, n int) (string, error) {
	if q.err != nil {
		return "", q.err
	}
	base := filepath.Join(work, fmt.Sprintf("case%d", n))
	if q.pre != "" {
		if a := askSolvers(q.pre, base+"-pre.smt2", 10); a != "unsat" {
			return "pre-not-established", nil
		}
	}
	if a := askSolvers(q.sanity, base+"-sanity.smt2", 10); a == "unsat" {
		return "", fmt.Errorf("the concrete input/output facts are contradictory with the background theory (replay driver problem)")
	}
	if a := askSolvers(q.clause, base+"-clause.smt2", 10); a == "unsat" {
		return "refuted", nil
	}
	return "inconclusive", nil
}

// clauseOf finds the ensures clause an obligation "…/post#label[@retN]" was generated from
func clauseOf(con *Contract, obName string) *Clause {
	i := strings.Index(obName, "/post#")
	if i < 0 {
		return nil
	}
	lab := obName[i+len("/post#"):]
	if j := strings.LastIndex(lab, "@ret"); j >= 0 {
		lab = lab[:j]
	}
	for k := range con.Ens {
		en := &con.Ens[k]
		if en.Kind == "censures" || en.Kind == "lensures" {
			continue
		}
		if en.Label == lab || (en.Label == "" && fmt.Sprint(k+1) == lab) {
			return en
		}
	}
	return nil
}

// obligation classes whose violation is a run-time panic of the real code
var panicClasses = map[string]bool{"nil": true, "idx": true, "div": true, "makeslice": true, "assert": true}

// ---- candidate inputs from the solver ----

var reValuePair = regexp.MustCompile(`\(\s*(\(str_len [^()]+\)|\(str_at [^()]+ \d+\)|\(select [^()]+ \d+\)|[^\s()]+)\s+(\(- \d+\)|-?\d+|true|false)\s*\)`)

func solverValues(smtFile string, terms []string, work, tag string) map[string]string {
	b, err := os.ReadFile(smtFile)
	if err != nil || len(terms) == 0 {
		return nil
	}
	text := string(b)
	if i := strings.LastIndex(text, "(check-sat)"); i >= 0 {
		text = text[:i]
	}
	text += "(check-sat)\n(get-value (" + strings.Join(terms, " ") + "))\n"
	f := filepath.Join(work, "candidate-"+tag+".smt2")
	os.WriteFile(f, []byte(text), 0o644)
	for _, cmdline := range [][]string{{"z3-new", "-T:10", f}, {"cvc5", "--tlimit=10000", "--produce-models", f}} {
		outB, _ := exec.Command(cmdline[0], cmdline[1:]...).CombinedOutput()
		out := string(outB)
		if strings.Contains(out, "model is not available") || strings.Contains(out, "(error") || strings.HasPrefix(strings.TrimSpace(out), "unsat") {
			continue
		}
		vals := map[string]string{}
		for _, m := range reValuePair.FindAllStringSubmatch(out, -1) {
			vals[strings.Join(strings.Fields(m[1]), " ")] = m[2]
		}
		if len(vals) > 0 {
			return vals
		}
	}
	return nil
}

func parseSmtInt(s string) *big.Int {
	s = strings.TrimSpace(s)
	neg := false
	if strings.HasPrefix(s, "(- ") {
		neg = true
		s = strings.TrimSuffix(strings.TrimPrefix(s, "(- "), ")")
	}
	i := new(big.Int)
	if _, ok := i.SetString(s, 10); !ok {
		return nil
	}
	if neg {
		i.Neg(i)
	}
	return i
}

// solverCandidate reads the parameters' values out of the solver's model (or candidate model) of the failed obligation
func solverCandidate(v *Verdict, fn *ssa.Function, work string) []cval {
	fx := v.Ob.fx
	if fx == nil || v.SmtFile == "" {
		return nil
	}
	// phase A: scalars and lengths
	var terms []string
	for _, p := range fn.Params {
		pv, ok := fx.vals[p]
		if !ok {
			return nil
		}
		switch plainKind(p.Type()) {
		case "bool", "int":
			terms = append(terms, pv.L[0])
		case "string":
			terms = append(terms, app("str_len", pv.L[0]))
		case "bytes":
			terms = append(terms, pv.L[0], pv.L[1])
		default:
			return nil // string slices: no candidate extraction
		}
	}
	a := solverValues(v.SmtFile, terms, work, "a")
	if a == nil {
		return nil
	}
	// phase B: elements
	terms = nil
	lens := map[string]int{}
	for _, p := range fn.Params {
		pv := fx.vals[p]
		switch plainKind(p.Type()) {
		case "string":
			n := parseSmtInt(a[app("str_len", pv.L[0])])
			if n == nil || n.Sign() < 0 || n.Cmp(big.NewInt(64)) > 0 {
				return nil
			}
			lens[pv.L[0]] = int(n.Int64())
			for i := 0; i < int(n.Int64()); i++ {
				terms = append(terms, app("str_at", pv.L[0], fmt.Sprint(i)))
			}
		case "bytes":
			n := parseSmtInt(a[pv.L[1]])
			if n == nil || n.Sign() < 0 || n.Cmp(big.NewInt(64)) > 0 {
				return nil
			}
			lens[pv.L[2]] = int(n.Int64())
			for i := 0; i < int(n.Int64()); i++ {
				terms = append(terms, app("select", pv.L[2], fmt.Sprint(i)))
			}
		}
	}
	bvals := map[string]string{}
	if len(terms) > 0 {
		bvals = solverValues(v.SmtFile, terms, work, "b")
		if bvals == nil {
			return nil
		}
	}
	var out []cval
	for _, p := range fn.Params {
		pv := fx.vals[p]
		switch plainKind(p.Type()) {
		case "bool":
			out = append(out, cval{Kind: "bool", B: a[pv.L[0]] == "true"})
		case "int":
			i := parseSmtInt(a[pv.L[0]])
			lo, hi, _ := intRange(p.Type())
			if i == nil || i.Cmp(lo) < 0 || i.Cmp(hi) > 0 {
				return nil
			}
			out = append(out, cval{Kind: "int", I: i})
		case "string":
			var s []byte
			for i := 0; i < lens[pv.L[0]]; i++ {
				x := parseSmtInt(bvals[app("str_at", pv.L[0], fmt.Sprint(i))])
				if x == nil || x.Sign() < 0 || x.Cmp(big.NewInt(255)) > 0 {
					return nil
				}
				s = append(s, byte(x.Int64()))
			}
			out = append(out, cval{Kind: "string", S: s})
		case "bytes":
			var s []byte
			for i := 0; i < lens[pv.L[2]]; i++ {
				x := parseSmtInt(bvals[app("select", pv.L[2], fmt.Sprint(i))])
				if x == nil || x.Sign() < 0 || x.Cmp(big.NewInt(255)) > 0 {
					return nil
				}
				s = append(s, byte(x.Int64()))
			}
			out = append(out, cval{Kind: "bytes", Nil: a[pv.L[0]] == "true" && len(s) == 0, S: s})
		}
	}
	return out
}

// replayValues is the replay driver for functions over plain values
func replayValues(e *Engine, prop string, v *Verdict) map[string]any {
	fx := v.Ob.fx
	if fx == nil || fx.fn == nil || !replayable(fx.fn) || fx.con == nil {
		return nil
	}
	fn, con := fx.fn, fx.con
	var clause *Clause
	safety := panicClasses[v.Ob.Class]
	if !safety {
		if v.Ob.Class != "post" {
			return nil
		}
		if clause = clauseOf(con, v.Ob.Name); clause == nil {
			return nil
		}
	}
	work := filepath.Join(verifDir, "work", prop+"-replay", fileSafe(v.Ob.Name))
	os.RemoveAll(work)
	os.MkdirAll(work, 0o755)
	var ts []types.Type
	for _, p := range fn.Params {
		ts = append(ts, p.Type())
	}
	var inputs [][]cval
	var sources []string
	if c := solverCandidate(v, fn, work); c != nil {
		inputs = append(inputs, c)
		if v.Status == "failed" {
			sources = append(sources, "the solver's model of the failed obligation")
		} else {
			sources = append(sources, "the candidate assignment a solver reported with `unknown`")
		}
	}
	for _, tup := range poolInputs(ts, 400) {
		inputs = append(inputs, tup)
		sources = append(sources, "pool of boundary values of the parameter types")
	}
	rep := map[string]any{"driver": "replay:values", "function": displayKey(fx.key), "package": strings.TrimPrefix(strings.TrimPrefix(fn.Pkg.Pkg.Path(), repoMod), "/"), "inputs_tried": len(inputs), "reproduced": false}
	if len(inputs) == 0 {
		rep["reason"] = "no candidate input"
		return rep
	}
	outs, testFile, err := runReal(e, fn, inputs, work)
	rep["harness"] = testFile
	if err != nil {
		rep["reason"] = err.Error()
		return rep
	}
	describe := func(i int) map[string]any {
		var ins, rs []string
		for k, c := range inputs[i] {
			ins = append(ins, fn.Params[k].Name()+" = "+c.String())
		}
		for _, c := range outs[i].Results {
			rs = append(rs, c.String())
		}
		m := map[string]any{"case": i, "input": ins, "input_source": sources[i], "real_results": rs}
		if outs[i].Panic != "" {
			m["real_panic"] = outs[i].Panic
		}
		return m
	}
	type verdict struct {
		i   int
		res string
	}
	if safety {
		for i := range inputs {
			if outs[i].Panic != "" {
				rep["reproduced"] = true
				rep["failing_input"] = describe(i)
				rep["how"] = "the real function panics on this input"
				return rep
			}
		}
		rep["reason"] = "the real function did not panic on any candidate input"
		return rep
	}
	// judge the real outputs by the failed clause, in parallel
	res := make([]string, len(inputs))
	errs := make([]error, len(inputs))
	sem := make(chan struct{}, 12)
	done := make(chan int, len(inputs))
	qs := make([]judgeQ, len(inputs))
	for i := range inputs {
		if outs[i].Panic == "" {
			qs[i] = e.judgeQueries(fn, con, clause, inputs[i], outs[i].Results)
		}
	}
	for i := range inputs {
		i := i
		sem <- struct{}{}
		go func() {
			defer func() { <-sem; done <- i }()
			if outs[i].Panic != "" {
				res[i] = "panic"
				return
			}
			res[i], errs[i] = judge(qs[i], work, i)
		}()
	}
	for range inputs {
		<-done
	}
	counts := map[string]int{}
	for i := range inputs {
		if errs[i] != nil {
			counts["error"]++
			rep["judge_error"] = errs[i].Error()
			continue
		}
		counts[res[i]]++
	}
	rep["judged"] = counts
	var hits []int
	for i := range inputs {
		if res[i] == "refuted" && errs[i] == nil {
			hits = append(hits, i)
		}
	}
	sort.Ints(hits)
	if len(hits) > 0 {
		rep["reproduced"] = true
		rep["failing_input"] = describe(hits[0])
		rep["clause"] = clause.Text
		rep["how"] = "the real function was run on this input (go test -overlay); asserting the failed clause over the concrete input and the concrete real output is unsatisfiable"
		rep["other_failing_inputs"] = len(hits) - 1
		return rep
	}
	rep["reason"] = "no candidate input on which the real function's output refutes the clause"
	return rep
}
