package main

import (
	"fmt"
	"go/types"
	"os"
	"path/filepath"
	"sort"
	"strings"

	"golang.org/x/tools/go/ssa"
)

type nodeField struct {
	name  string
	slice bool
	iface bool
}

// nodeFields: fields of struct type st whose values are AST nodes (or slices of them)
func (e *Engine) nodeFields(st *types.Struct, nodeI *types.Interface) []nodeField {
	var out []nodeField
	isNode := func(t types.Type) bool {
		if isInterface(t) {
			if it, ok := under(t).(*types.Interface); ok {
				// an interface all of whose implementations are nodes
				ms := types.NewMethodSet(t)
				_ = it
				return ms.Lookup(nil, "Accept") != nil
			}
			return false
		}
		return types.Implements(t, nodeI)
	}
	for i := 0; i < st.NumFields(); i++ {
		f := st.Field(i)
		if f.Embedded() {
			continue
		}
		t := f.Type()
		if isNode(t) {
			out = append(out, nodeField{f.Name(), false, isInterface(t)})
		} else if sl, ok := under(t).(*types.Slice); ok && isNode(sl.Elem()) {
			out = append(out, nodeField{f.Name(), true, isInterface(sl.Elem())})
		}
	}
	return out
}

type acceptType struct {
	recvName string
	ptrRecv  bool
	named  *types.Named
	st     *types.Struct
	fields []nodeField
	symbol bool // has a `symbol string` field and reports it through VisitSymbol
}

func (e *Engine) acceptTypes() []acceptType {
	astPkg := e.tpkgs[repoMod+"/ast"]
	nodeT := astPkg.Scope().Lookup("Node").Type()
	nodeI := nodeT.Underlying().(*types.Interface)
	var out []acceptType
	for _, nt := range e.allNamed {
		if nt.Obj().Pkg() != astPkg {
			continue
		}
		st, ok := nt.Underlying().(*types.Struct)
		if !ok {
			continue
		}
		pt := types.NewPointer(nt)
		if !types.Implements(pt, nodeI) {
			continue
		}
		// Accept must be declared on this type (not promoted)
		declared := false
		recvName, ptrRecv := "node", true
		for i := 0; i < nt.NumMethods(); i++ {
			if nt.Method(i).Name() == "Accept" {
				declared = true
				r := nt.Method(i).Type().(*types.Signature).Recv()
				recvName = r.Name()
				_, ptrRecv = r.Type().(*types.Pointer)
			}
		}
		if !declared {
			continue
		}
		at := acceptType{named: nt, st: st, fields: e.nodeFields(st, nodeI), recvName: recvName, ptrRecv: ptrRecv}
		for i := 0; i < st.NumFields(); i++ {
			if st.Field(i).Name() == "symbol" && isString(st.Field(i).Type()) {
				at.symbol = true
			}
		}
		out = append(out, at)
	}
	sort.Slice(out, func(i, j int) bool { return out[i].named.Obj().Name() < out[j].named.Obj().Name() })
	return out
}

func cmdGenAccept(args []string) int {
	e, err := loadEngine(repoDir(), filepath.Join(verifDir, "spec", "trusted"))
	if err != nil {
		fmt.Fprintln(os.Stderr, err)
		return 2
	}
	for _, at := range e.acceptTypes() {
		name := at.named.Obj().Name()
		recv := at.recvName
		if recv == "" || recv == "_" {
			recv = "self"
		}
		star := "*"
		if !at.ptrRecv {
			star = ""
		}
		fmt.Printf("//@ func (%s%s).Accept\n//@   props C20\n//@   nilrecv\n//@   nosafety\n//@   modifies visited, symSeen, visitorState, any boltz.publicSymbolValidator.err, any SymbolValidator.*\n", star, name)
		if at.ptrRecv {
			fmt.Printf("//@   censures visited[%s]\n", recv)
		}
		fmt.Printf("//@   ensures[monotone] forall(x, old(visited[x]) ==> visited[x]) && forallStr(s, old(symSeen[s]) ==> symSeen[s])\n")
		if at.symbol {
			fmt.Printf("//@   ensures[symbol] %s != nil ==> symSeen[%s.symbol]\n", recv, recv)
		}
		loop := 0
		for _, f := range at.fields {
			if f.slice {
				loop++
				fmt.Printf("//@   ensures[child-%s] %s != nil ==> forall(i, 0 <= i && i < len(%s.%s) ==> visited[%s.%s[i]])\n", f.name, recv, recv, f.name, recv, f.name)
				fmt.Printf("//@   invariant %d: forall(j, 0 <= j && j <= rangeindex ==> visited[%s.%s[j]]) && forall(x, old(visited[x]) ==> visited[x]) && forallStr(s, old(symSeen[s]) ==> symSeen[s])\n", loop, recv, f.name)
			} else {
				fmt.Printf("//@   ensures[child-%s] %s != nil && %s.%s != nil ==> visited[%s.%s]\n", f.name, recv, recv, f.name, recv, f.name)
			}
		}
		fmt.Println()
	}
	return 0
}

// cmdGenTypeInv prints candidate representation invariants: every child field of a node is non-nil
func cmdGenTypeInv(args []string) int {
	e, err := loadEngine(repoDir(), filepath.Join(verifDir, "spec", "trusted"))
	if err != nil {
		fmt.Fprintln(os.Stderr, err)
		return 2
	}
	nilable := map[string]bool{"queryNode.SortBy": true, "queryNode.Skip": true, "queryNode.Limit": true, "untypedQueryNode.sortBy": true, "untypedQueryNode.skip": true, "untypedQueryNode.limit": true, "CountSetExprNode.query": true, "IsEmptySetExprNode.query": true}
	for _, a := range args {
		nilable[a] = true
	}
	for _, at := range e.acceptTypes() {
		name := at.named.Obj().Name()
		var parts []string
		for _, f := range at.fields {
			if f.slice || nilable[name+"."+f.name] {
				continue
			}
			parts = append(parts, "self."+f.name+" != nil")

		}
		if len(parts) > 0 {
			fmt.Printf("//@ typeinv %s: %s\n", name, strings.Join(parts, " && "))
		}
	}
	fmt.Println()
	fmt.Println("// a child slot that holds a node never goes back to nil (checked at every store in the functions under contract)")
	for _, at := range e.acceptTypes() {
		name := at.named.Obj().Name()
		for i := 0; i < at.st.NumFields(); i++ {
			f := at.st.Field(i)
			for _, nf := range at.fields {
				if nf.name != f.Name() || nf.slice || nilable[name+"."+f.Name()] {
					continue
				}
				if isInterface(f.Type()) {
					fmt.Printf("//@ monotone H.ast.%s.%s.typ\n", name, f.Name())
				} else {
					fmt.Printf("//@ monotone H.ast.%s.%s\n", name, f.Name())
				}
			}
		}
	}
	fmt.Println("//@ monotone Cell.ast.Node.typ")
	fmt.Println("//@ monotone Cell.ast.BoolNode.typ")
	return 0
}

// cmdGenGetType prints contracts for the GetType methods of all node types (constant results are stated)
func cmdGenGetType(args []string) int {
	e, err := loadEngine(repoDir(), filepath.Join(verifDir, "spec", "trusted"))
	if err != nil {
		fmt.Fprintln(os.Stderr, err)
		return 2
	}
	astPkg := e.tpkgs[repoMod+"/ast"]
	for _, nt := range e.allNamed {
		if nt.Obj().Pkg() != astPkg {
			continue
		}
		for i := 0; i < nt.NumMethods(); i++ {
			m := nt.Method(i)
			if m.Name() != "GetType" {
				continue
			}
			fn := e.prog.FuncValue(m)
			if fn == nil || len(fn.Blocks) == 0 {
				continue
			}
			r := m.Type().(*types.Signature).Recv()
			star := ""
			if _, ok := r.Type().(*types.Pointer); ok {
				star = "*"
			}
			nilrecv := "//@   nilrecv\n"
			if len(fn.Params) > 0 && fn.Params[0].Referrers() != nil && len(*fn.Params[0].Referrers()) > 0 {
				for _, r := range *fn.Params[0].Referrers() {
					if _, dbg := r.(*ssa.DebugRef); !dbg {
						nilrecv = ""
					}
				}
			}
			fmt.Printf("//@ func (%s%s).GetType\n//@   props C10\n%s//@   pure\n", star, nt.Obj().Name(), nilrecv)
			if len(fn.Blocks) == 1 {
				if ret, ok := fn.Blocks[0].Instrs[len(fn.Blocks[0].Instrs)-1].(*ssa.Return); ok && len(ret.Results) == 1 {
					if c, ok := ret.Results[0].(*ssa.Const); ok && c.Value != nil {
						fmt.Printf("//@   ensures[const] result == %s\n", c.Value.ExactString())
					}
				}
			}
			fmt.Println()
		}
	}
	return 0
}

// checkAcceptCompleteness (C20): every node type has an Accept contract naming every child field
func (e *Engine) checkAcceptCompleteness() *extraResult {
	x := &extraResult{Name: "accept-contract-completeness (enumeration of go/types)", Kind: "enumeration", ObFailed: map[string]string{}}
	for _, at := range e.acceptTypes() {
		name := at.named.Obj().Name()
		star := "*"
		if !at.ptrRecv {
			star = ""
		}
		key := fmt.Sprintf("%s/ast.(%s%s).Accept", repoMod, star, name)
		ob := fmt.Sprintf("ast.(%s).Accept/contract-covers-children", name)
		x.ObNames = append(x.ObNames, ob)
		x.Cases++
		c := e.contracts[key]
		if c == nil || !hasProp(c, "C20") {
			x.ObFailed[ob] = "contract-missing: node type " + name + " has an Accept method but no C20 contract"
			continue
		}
		var text []string
		for _, en := range c.Ens {
			if en.Kind == "ensures" {
				text = append(text, en.Text)
			}
		}
		all := strings.Join(text, "\n")
		// the receiver's name in the contract text: the current one, or the one on the baselined tree if it was renamed
		recvNames := []string{at.recvName}
		if bs := baseSigFor(key, c.Obj); bs != nil && bs[0] != "" && bs[0] != at.recvName {
			recvNames = append(recvNames, bs[0])
		}
		mentions := func(pre, post string) bool {
			for _, rn := range recvNames {
				if strings.Contains(all, pre+rn+post) {
					return true
				}
			}
			return false
		}
		for _, f := range at.fields {
			if !mentions("visited[", "."+f.name) {
				x.ObFailed[ob] = fmt.Sprintf("child field %s.%s is not covered by a `visited[...]` postcondition", name, f.name)
			}
		}
		if at.symbol && !mentions("symSeen[", ".symbol]") {
			x.ObFailed[ob] = fmt.Sprintf("symbol field of %s is not covered by a `symSeen[...]` postcondition", name)
		}
	}
	x.Note = "every struct type of package ast that implements Node and declares Accept must carry a C20 contract whose postconditions mention every Node-typed field (and the symbol name for symbol nodes)"
	return x
}
