package main

import (
	"fmt"
	"go/ast"
	"go/token"
	"go/types"
	"os"
	"path/filepath"
	"regexp"
	"sort"
	"strconv"
	"strings"
)

// ---------------------------------------------------------------------------
// Contract files. In /repo they are comment-only Go files behind the build tag
// `verif`; for dependencies they are /verif/spec/trusted/*.contract (same
// syntax, plus a `package <path>` directive). Every directive is a line that
// starts with //@ (or // @). A line whose text starts with `|` continues the
// previous clause.
// ---------------------------------------------------------------------------

type Clause struct {
	Kind  string // requires ensures invariant decreases assume
	Label string
	Loop  int
	Text  string
	File  string
	Line  int
}

type Contract struct {
	PkgPath string
	Recv    string // "*scanner", "Query", ""
	Name    string
	Key     string // resolved key (set by the engine)
	Props   []string
	Req     []Clause
	Ens     []Clause
	Inv     map[int][]Clause
	Dec     map[int]Clause
	Mod     []string // raw location expressions
	ModAll  bool
	HasMod  bool
	Trusted bool   // contract is assumed, body is not verified
	TrustedWhy string
	Flags   map[string]string
	Absorbs map[string]string // call ordinal/name -> reason
	File    string
	Line    int
	IsIface bool
	Obj     *types.Func
	IfaceT  *types.Named
	FuncT   types.Type
	ParentKey, ParentRecv string
	Params  []string // optional explicit parameter names: func (X).M(a, b)
	CallPre map[string][]Clause // "Callee@n" -> caller-specific obligations checked right before that call (arg0.. = actual arguments)
}

type GhostDecl struct {
	Name, Sort string
	PkgPath    string
	Default    string // value at freshly allocated references ("" = unknown)
	Dispatch   bool   // reads through an interface case-split over the types that define a view of this ghost
	Private    bool   // changed only by contracts that name it in `modifies` (a `modifies *` does not include it)
	Volatile   bool   // never part of a frame: any call that is not pure may change it; callers know only what `ensures` say
}

type SpecDecl struct {
	Name    string
	Args    []string // sorts
	ArgNames []string
	Ret     string
	Body    string // optional SMT body over ArgNames
	Rec     bool
	PkgPath string
	GoRet   types.Type
	retResolved bool
}

// ModelField: ghost[addr] := fn(value) whenever the field T.f of the object at addr is written
type ModelField struct {
	Type, Field, Ghost, Fn string
	PkgPath                string
}

// ImplCheck: the listed concrete types must satisfy the interface-level contracts of the named interface
type ImplCheck struct {
	Prop, Iface string
	Types       []string
	PkgPath     string
}

// ViewDecl: for objects of the named pointer type, ghost[obj] is defined by an expression over `self`
type ViewDecl struct {
	Ghost, Type, Text string
	PkgPath           string
	File              string
	Line              int
}

// SweepDecl: verify the safety obligations of every function defined in the named files
type SweepDecl struct {
	Prop    string
	PkgPath string
	Files   []string // base names; "*" = all
	Except  []string // base names or function display keys
}

// TypeInv: representation invariant of a struct type, assumed at method entry (receiver) and after
// successful type assertions, checked where a pointer to the type is published (boxed in an interface or returned)
type TypeInv struct {
	Type, Text string
	PkgPath    string
	File       string
	Line       int
}

type AxiomDecl struct {
	Name    string
	Text    string // raw smt
	PkgPath string
	File    string
	Line    int
	Lemma   bool   // lemma: proved from earlier axioms/lemmas before being used
}

// DefineDecl: a spec-level abbreviation, expanded in the state of its use (so old(m(x)) reads the old state)
type DefineDecl struct {
	Name   string
	Params []string
	Text   string
	File   string
	Line   int
}

type ContractSet struct {
	Defines map[string]*DefineDecl
	Funcs  []*Contract
	Ghosts []*GhostDecl
	Specs  []*SpecDecl
	Axioms []*AxiomDecl
	Models []*ModelField
	ImplChecks []*ImplCheck
	Views    []*ViewDecl
	Monotone []string
	Immutable []string
	Sweeps []*SweepDecl
	TypeInvs []*TypeInv
	Files  []string
}

var reFunc = regexp.MustCompile(`^func\s+(?:\(([^)]*)\)\s*\.)?\s*([A-Za-z_][A-Za-z0-9_$]*)\s*(?:\(([^)]*)\))?\s*$`)
var reCallPre = regexp.MustCompile(`^callpre(?:\[([^\]]*)\])?\s+([^\s:]+@\d+)\s*:\s*(.*)$`)
var reLabel = regexp.MustCompile(`^(requires|ensures|lensures|censures|invariant|decreases|assume)(?:\[([^\]]*)\])?\s*(?:(\d+)\s*:)?\s*(.*)$`)

type rawLine struct {
	text string
	file string
	line int
}

func directiveLines(file string, src string, fromGo bool) []rawLine {
	var out []rawLine
	for i, l := range strings.Split(src, "\n") {
		t := strings.TrimSpace(l)
		var body string
		if strings.HasPrefix(t, "//@") {
			body = t[3:]
		} else if strings.HasPrefix(t, "// @") {
			body = t[4:]
		} else {
			continue
		}
		// strip trailing comment introduced by " // "
		if j := strings.Index(body, " // "); j >= 0 {
			body = body[:j]
		}
		body = strings.TrimSpace(body)
		if body == "" {
			continue
		}
		out = append(out, rawLine{body, file, i + 1})
	}
	_ = fromGo
	return out
}

func parseContractSource(cs *ContractSet, file, src, pkgPath string) error {
	lines := directiveLines(file, src, true)
	var cur *Contract
	var lastClause *Clause
	var lastAxiom *AxiomDecl
	var lastSpec *SpecDecl
	for _, rl := range lines {
		t := rl.text
		if strings.HasPrefix(t, "|") {
			cont := strings.TrimSpace(t[1:])
			switch {
			case lastClause != nil:
				lastClause.Text += " " + cont
			case lastAxiom != nil:
				lastAxiom.Text += " " + cont
			case lastSpec != nil:
				lastSpec.Body += " " + cont
			default:
				return fmt.Errorf("%s:%d: continuation without clause", rl.file, rl.line)
			}
			continue
		}
		lastClause, lastAxiom, lastSpec = nil, nil, nil
		word := t
		rest := ""
		if i := strings.IndexAny(t, " \t["); i >= 0 {
			word, rest = t[:i], strings.TrimSpace(t[i:])
		}
		switch word {
		case "package":
			pkgPath = rest
			cur = nil
		case "ghost":
			// ghost name : sort
			parts := strings.SplitN(rest, ":", 2)
			if len(parts) != 2 {
				return fmt.Errorf("%s:%d: bad ghost", rl.file, rl.line)
			}
			gd := &GhostDecl{Name: strings.TrimSpace(parts[0]), Sort: strings.TrimSpace(parts[1]), PkgPath: pkgPath}
			if strings.HasSuffix(gd.Sort, " volatile") {
				gd.Volatile = true
				gd.Sort = strings.TrimSpace(strings.TrimSuffix(gd.Sort, " volatile"))
			}
			if strings.HasSuffix(gd.Sort, " private") {
				gd.Private = true
				gd.Sort = strings.TrimSpace(strings.TrimSuffix(gd.Sort, " private"))
			}
			if strings.HasSuffix(gd.Sort, " dispatch") {
				gd.Dispatch = true
				gd.Sort = strings.TrimSpace(strings.TrimSuffix(gd.Sort, " dispatch"))
			}
			if i := strings.Index(gd.Sort, " default "); i >= 0 {
				gd.Default = strings.TrimSpace(gd.Sort[i+9:])
				gd.Sort = strings.TrimSpace(gd.Sort[:i])
			}
			cs.Ghosts = append(cs.Ghosts, gd)
			cur = nil
		case "spec":
			sd, err := parseSpec(rest)
			if err != nil {
				return fmt.Errorf("%s:%d: %v", rl.file, rl.line, err)
			}
			sd.PkgPath = pkgPath
			cs.Specs = append(cs.Specs, sd)
			lastSpec = sd
			cur = nil
		case "axiom", "lemma":
			parts := strings.SplitN(rest, ":", 2)
			if len(parts) != 2 {
				return fmt.Errorf("%s:%d: bad axiom (want `axiom name: smt`)", rl.file, rl.line)
			}
			ax := &AxiomDecl{Name: strings.TrimSpace(parts[0]), Text: strings.TrimSpace(parts[1]), PkgPath: pkgPath, File: rl.file, Line: rl.line, Lemma: word == "lemma"}
			cs.Axioms = append(cs.Axioms, ax)
			lastAxiom = ax
			cur = nil
		case "sweep":
			// sweep Cxx file1.go file2.go except a.go (*T).M
			f := strings.Fields(rest)
			if len(f) < 2 {
				return fmt.Errorf("%s:%d: sweep <prop> <files...> [except ...]", rl.file, rl.line)
			}
			sw := &SweepDecl{Prop: f[0], PkgPath: pkgPath}
			ex := false
			for _, w := range f[1:] {
				if w == "except" {
					ex = true
					continue
				}
				if ex {
					sw.Except = append(sw.Except, w)
				} else {
					sw.Files = append(sw.Files, w)
				}
			}
			cs.Sweeps = append(cs.Sweeps, sw)
			cur = nil
		case "implcheck":
			f := strings.Fields(rest)
			if len(f) < 3 {
				return fmt.Errorf("%s:%d: implcheck <prop> <pkg.Iface> <types...>", rl.file, rl.line)
			}
			cs.ImplChecks = append(cs.ImplChecks, &ImplCheck{Prop: f[0], Iface: f[1], Types: f[2:], PkgPath: pkgPath})
			cur = nil
		case "define":
			m := regexp.MustCompile(`^([A-Za-z_][A-Za-z0-9_]*)\(([^)]*)\)\s*=\s*(.*)$`).FindStringSubmatch(rest)
			if m == nil {
				return fmt.Errorf("%s:%d: define name(params) = expr", rl.file, rl.line)
			}
			var ps []string
			for _, q := range strings.Split(m[2], ",") {
				if q = strings.TrimSpace(q); q != "" {
					ps = append(ps, q)
				}
			}
			if cs.Defines == nil {
				cs.Defines = map[string]*DefineDecl{}
			}
			cs.Defines[m[1]] = &DefineDecl{Name: m[1], Params: ps, Text: m[3], File: rl.file, Line: rl.line}
			cur = nil
		case "view":
			// view ghost[*T] = expr
			m := regexp.MustCompile(`^([A-Za-z_][A-Za-z0-9_]*)\[\*?([A-Za-z_][A-Za-z0-9_]*)\]\s*=\s*(.*)$`).FindStringSubmatch(rest)
			if m == nil {
				return fmt.Errorf("%s:%d: view ghost[*T] = expr", rl.file, rl.line)
			}
			cs.Views = append(cs.Views, &ViewDecl{Ghost: m[1], Type: m[2], Text: m[3], PkgPath: pkgPath, File: rl.file, Line: rl.line})
			cur = nil
		case "typeinv":
			parts := strings.SplitN(rest, ":", 2)
			if len(parts) != 2 {
				return fmt.Errorf("%s:%d: typeinv T: expr", rl.file, rl.line)
			}
			ti := &TypeInv{Type: strings.TrimSpace(parts[0]), Text: strings.TrimSpace(parts[1]), PkgPath: pkgPath, File: rl.file, Line: rl.line}
			cs.TypeInvs = append(cs.TypeInvs, ti)
			lastClause = nil
			cur = nil
		case "ifacedefault":
			// ifacedefault Iface : every method of the interface without its own contract gets the clauses that follow
			cur = &Contract{PkgPath: pkgPath, Name: strings.TrimSpace(rest), Inv: map[int][]Clause{}, Dec: map[int]Clause{}, Flags: map[string]string{"ifacedefault": "yes"}, Absorbs: map[string]string{}, File: rl.file, Line: rl.line}
			cs.Funcs = append(cs.Funcs, cur)
		case "monotone":
			cs.Monotone = append(cs.Monotone, strings.TrimSpace(rest))
			cur = nil
		case "immutable":
			cs.Immutable = append(cs.Immutable, strings.TrimSpace(rest))
			cur = nil
		case "waive":
			if cur == nil {
				return fmt.Errorf("%s:%d: waive outside a func contract", rl.file, rl.line)
			}
			parts := strings.SplitN(rest, " ", 2)
			why := ""
			if len(parts) == 2 {
				why = parts[1]
			}
			cur.Flags["waive:"+parts[0]] = why
		case "modelfield":
			// modelfield T.f ghost fn
			f := strings.Fields(rest)
			tf := strings.Split(f[0], ".")
			if len(f) != 3 || len(tf) != 2 {
				return fmt.Errorf("%s:%d: modelfield T.f ghost fn", rl.file, rl.line)
			}
			cs.Models = append(cs.Models, &ModelField{Type: tf[0], Field: tf[1], Ghost: f[1], Fn: f[2], PkgPath: pkgPath})
			cur = nil
		case "funcparam":
			// funcparam [(*T).]F.p(params) : contract for calls through parameter p of function F
			hdr := rest
			params := ""
			if i := strings.LastIndex(hdr, "("); i >= 0 && strings.HasSuffix(strings.TrimSpace(hdr), ")") && !strings.HasPrefix(strings.TrimSpace(hdr[i:]), "(*") {
				params = strings.TrimSuffix(strings.TrimSpace(hdr[i+1:]), ")")
				hdr = strings.TrimSpace(hdr[:i])
			}
			cur = &Contract{PkgPath: pkgPath, Name: hdr, Inv: map[int][]Clause{}, Dec: map[int]Clause{}, Flags: map[string]string{"funcparam": "yes"}, Absorbs: map[string]string{}, File: rl.file, Line: rl.line}
			if strings.TrimSpace(params) != "" {
				for _, p := range strings.Split(params, ",") {
					cur.Params = append(cur.Params, strings.TrimSpace(p))
				}
			}
			cs.Funcs = append(cs.Funcs, cur)
		case "funcfield":
			// funcfield T.f(params)
			hdr := rest
			params := ""
			if i := strings.Index(hdr, "("); i >= 0 {
				params = strings.TrimSuffix(strings.TrimSpace(hdr[i+1:]), ")")
				hdr = strings.TrimSpace(hdr[:i])
			}
			cur = &Contract{PkgPath: pkgPath, Name: hdr, Inv: map[int][]Clause{}, Dec: map[int]Clause{}, Flags: map[string]string{"funcfield": "yes"}, Absorbs: map[string]string{}, File: rl.file, Line: rl.line}
			if strings.TrimSpace(params) != "" {
				for _, p := range strings.Split(params, ",") {
					cur.Params = append(cur.Params, strings.TrimSpace(p))
				}
			}
			cs.Funcs = append(cs.Funcs, cur)
		case "functype":
			m := reFunc.FindStringSubmatch("func " + rest)
			if m == nil {
				return fmt.Errorf("%s:%d: bad functype header %q", rl.file, rl.line, t)
			}
			cur = &Contract{PkgPath: pkgPath, Name: m[2], Inv: map[int][]Clause{}, Dec: map[int]Clause{}, Flags: map[string]string{"functype": "yes"}, Absorbs: map[string]string{}, File: rl.file, Line: rl.line}
			if strings.TrimSpace(m[3]) != "" {
				for _, p := range strings.Split(m[3], ",") {
					cur.Params = append(cur.Params, strings.TrimSpace(p))
				}
			}
			cs.Funcs = append(cs.Funcs, cur)
		case "func":
			m := reFunc.FindStringSubmatch(t)
			if m == nil {
				return fmt.Errorf("%s:%d: bad func header %q", rl.file, rl.line, t)
			}
			cur = &Contract{PkgPath: pkgPath, Recv: strings.TrimSpace(m[1]), Name: m[2], Inv: map[int][]Clause{}, Dec: map[int]Clause{}, Flags: map[string]string{}, Absorbs: map[string]string{}, File: rl.file, Line: rl.line}
			if strings.TrimSpace(m[3]) != "" {
				for _, p := range strings.Split(m[3], ",") {
					cur.Params = append(cur.Params, strings.TrimSpace(p))
				}
			}
			cs.Funcs = append(cs.Funcs, cur)
		default:
			if cur == nil {
				return fmt.Errorf("%s:%d: clause %q outside a func contract", rl.file, rl.line, word)
			}
			switch word {
			case "props":
				cur.Props = append(cur.Props, strings.Fields(rest)...)
			case "modifies":
				cur.HasMod = true
				for _, p := range splitTop(rest, ',') {
					p = strings.TrimSpace(p)
					if p == "*" {
						cur.ModAll = true
					} else if p != "" && p != "nothing" {
						cur.Mod = append(cur.Mod, p)
					}
				}
			case "pure":
				cur.HasMod = true
				cur.Flags["pure"] = "yes"
			case "trusted":
				cur.Trusted = true
				cur.TrustedWhy = rest
			case "absorbs":
				parts := strings.SplitN(rest, ":", 2)
				why := ""
				if len(parts) == 2 {
					why = strings.TrimSpace(parts[1])
				}
				cur.Absorbs[strings.TrimSpace(parts[0])] = why
			case "callpre":
				// callpre[label] Callee@n: expr  - checked in this function right before its n-th call of Callee
				m := reCallPre.FindStringSubmatch(t)
				if m == nil {
					return fmt.Errorf("%s:%d: bad callpre (want `callpre[label] Callee@n: expr`)", rl.file, rl.line)
				}
				if cur.CallPre == nil {
					cur.CallPre = map[string][]Clause{}
				}
				cur.CallPre[m[2]] = append(cur.CallPre[m[2]], Clause{Kind: "callpre", Label: m[1], Text: strings.TrimSpace(m[3]), File: rl.file, Line: rl.line})
				lastClause = nil
			case "requires", "ensures", "lensures", "censures", "invariant", "decreases", "assume":
				m := reLabel.FindStringSubmatch(t)
				if m == nil {
					return fmt.Errorf("%s:%d: bad clause", rl.file, rl.line)
				}
				cl := Clause{Kind: m[1], Label: m[2], Text: strings.TrimSpace(m[4]), File: rl.file, Line: rl.line}
				if m[3] != "" {
					cl.Loop, _ = strconv.Atoi(m[3])
				}
				switch cl.Kind {
				case "requires", "assume":
					cur.Req = append(cur.Req, cl)
					lastClause = &cur.Req[len(cur.Req)-1]
				case "ensures", "lensures", "censures":
					cur.Ens = append(cur.Ens, cl)
					lastClause = &cur.Ens[len(cur.Ens)-1]
				case "invariant":
					if cl.Loop == 0 {
						cl.Loop = 1
					}
					cur.Inv[cl.Loop] = append(cur.Inv[cl.Loop], cl)
					s := cur.Inv[cl.Loop]
					lastClause = &s[len(s)-1]
				case "decreases":
					if cl.Loop == 0 {
						cl.Loop = 1
					}
					cur.Dec[cl.Loop] = cl
				}
			default:
				// flag: word rest
				cur.Flags[word] = rest
			}
		}
	}
	return nil
}

func parseSpec(s string) (*SpecDecl, error) {
	// name(a Sort, b Sort) Ret [= body]
	body := ""
	if i := strings.Index(s, " = "); i >= 0 {
		body = strings.TrimSpace(s[i+3:])
		s = strings.TrimSpace(s[:i])
	}
	i := strings.Index(s, "(")
	if i < 0 {
		return nil, fmt.Errorf("bad spec %q", s)
	}
	// matching close paren
	d, j := 0, -1
	for k := i; k < len(s); k++ {
		if s[k] == '(' {
			d++
		} else if s[k] == ')' {
			d--
			if d == 0 {
				j = k
				break
			}
		}
	}
	if j < 0 {
		return nil, fmt.Errorf("bad spec %q", s)
	}
	sd := &SpecDecl{Name: strings.TrimSpace(s[:i]), Ret: strings.TrimSpace(s[j+1:]), Body: body}
	if strings.HasPrefix(sd.Name, "rec ") {
		sd.Rec = true
		sd.Name = strings.TrimSpace(sd.Name[4:])
	}
	for _, a := range splitTop(s[i+1:j], ',') {
		a = strings.TrimSpace(a)
		if a == "" {
			continue
		}
		k := strings.IndexAny(a, " \t")
		if k < 0 {
			return nil, fmt.Errorf("bad spec arg %q", a)
		}
		sd.ArgNames = append(sd.ArgNames, a[:k])
		sd.Args = append(sd.Args, strings.TrimSpace(a[k:]))
	}
	return sd, nil
}

// splitTop splits on sep at paren/bracket depth 0
func splitTop(s string, sep byte) []string {
	var out []string
	d := 0
	start := 0
	for i := 0; i < len(s); i++ {
		switch s[i] {
		case '(', '[', '{':
			d++
		case ')', ']', '}':
			d--
		default:
			if s[i] == sep && d == 0 {
				out = append(out, s[start:i])
				start = i + 1
			}
		}
	}
	out = append(out, s[start:])
	return out
}

// loadContracts reads contract comments from the parsed package files whose
// name is zz_verif_contracts*.go, and the trusted contract files.
func loadContracts(pkgFiles map[string][]*ast.File, fset *token.FileSet, trustedDir string) (*ContractSet, error) {
	cs := &ContractSet{}
	var paths []string
	for p := range pkgFiles {
		paths = append(paths, p)
	}
	sort.Strings(paths)
	for _, pkgPath := range paths {
		for _, f := range pkgFiles[pkgPath] {
			name := fset.Position(f.Pos()).Filename
			if !strings.HasPrefix(filepath.Base(name), "zz_verif_contracts") {
				continue
			}
			src, err := os.ReadFile(name)
			if err != nil {
				return nil, err
			}
			cs.Files = append(cs.Files, name)
			if err := parseContractSource(cs, name, string(src), pkgPath); err != nil {
				return nil, err
			}
		}
	}
	if trustedDir != "" {
		ents, _ := filepath.Glob(filepath.Join(trustedDir, "*.contract"))
		sort.Strings(ents)
		for _, name := range ents {
			src, err := os.ReadFile(name)
			if err != nil {
				return nil, err
			}
			cs.Files = append(cs.Files, name)
			n0 := len(cs.Funcs)
			if err := parseContractSource(cs, name, string(src), ""); err != nil {
				return nil, err
			}
			for _, c := range cs.Funcs[n0:] {
				c.Trusted = true
				if c.TrustedWhy == "" {
					c.TrustedWhy = "dependency contract (" + filepath.Base(name) + ")"
				}
			}
		}
	}
	return cs, nil
}

// rewriteImplies turns `a ==> b` (lowest precedence, right associative) into implies(a, b)
func rewriteImplies(s string) string {
	// find top-level ==> not inside parens
	d := 0
	for i := 0; i+2 < len(s); i++ {
		switch s[i] {
		case '(', '[', '{':
			d++
		case ')', ']', '}':
			d--
		case '"':
			// skip string literal
			j := i + 1
			for j < len(s) && s[j] != '"' {
				if s[j] == '\\' {
					j++
				}
				j++
			}
			i = j
		case '=':
			if d == 0 && s[i:i+3] == "==>" {
				return "implies(" + rewriteImplies(s[:i]) + ", " + rewriteImplies(s[i+3:]) + ")"
			}
		}
	}
	// recurse into parenthesised groups
	var sb strings.Builder
	i := 0
	for i < len(s) {
		c := s[i]
		if c == '"' {
			j := i + 1
			for j < len(s) && s[j] != '"' {
				if s[j] == '\\' {
					j++
				}
				j++
			}
			if j >= len(s) {
				j = len(s) - 1
			}
			sb.WriteString(s[i : j+1])
			i = j + 1
			continue
		}
		if c == '(' || c == '[' {
			open, close := byte('('), byte(')')
			if c == '[' {
				open, close = '[', ']'
			}
			dd := 0
			j := i
			for ; j < len(s); j++ {
				if s[j] == open {
					dd++
				} else if s[j] == close {
					dd--
					if dd == 0 {
						break
					}
				}
			}
			if j >= len(s) {
				sb.WriteString(s[i:])
				break
			}
			inner := s[i+1 : j]
			// split on top-level commas so that each argument is rewritten separately
			parts := splitTop(inner, ',')
			for k := range parts {
				parts[k] = rewriteImplies(parts[k])
			}
			sb.WriteByte(open)
			sb.WriteString(strings.Join(parts, ","))
			sb.WriteByte(close)
			i = j + 1
			continue
		}
		sb.WriteByte(c)
		i++
	}
	return sb.String()
}
