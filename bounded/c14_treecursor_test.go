package ast

// Bounded stand-in for the one part of C14 that is assumed rather than proved: treeCursor enumerates an llrb tree in
// order (its contract is safety-only; the order is the trusted llrb contract). Exhaustive on the real code: every
// insertion order of every subset of 6 keys (with duplicates inserted again), both directions; the cursor must yield
// exactly the distinct keys, ascending (descending) in byte order, and then be invalid. Also the union cursor over two
// such tree cursors against the merged list. Injected with `go test -overlay`; labelled bounded.

import (
	"bytes"
	"fmt"
	"os"
	"sort"
	"testing"
)

func tcDrain(c SetCursor, max int) []string {
	var out []string
	for i := 0; c.IsValid() && i < max; i++ {
		out = append(out, string(c.Current()))
		c.Next()
	}
	return out
}

func TestVerifBoundedTreeCursor(t *testing.T) {
	keys := []string{"", "a", "ab", "b", "\x00", "ba"}
	if os.Getenv("VERIF_BOUNDED_LEVEL") == "thorough" {
		keys = append(keys, "a\x00")
	}
	cases, fails := 0, 0
	fail := func(format string, args ...interface{}) {
		fails++
		if fails <= 10 {
			fmt.Printf("BOUNDED-FAIL %s\n", fmt.Sprintf(format, args...))
		}
	}
	expect := func(set map[string]bool, forward bool) []string {
		var want []string
		for k := range set {
			want = append(want, k)
		}
		sort.Slice(want, func(i, j int) bool {
			c := bytes.Compare([]byte(want[i]), []byte(want[j]))
			if forward {
				return c < 0
			}
			return c > 0
		})
		return want
	}
	var perm func(rest []string, acc []string)
	var orders [][]string
	perm = func(rest []string, acc []string) {
		orders = append(orders, append([]string{}, acc...))
		for i := range rest {
			nr := append(append([]string{}, rest[:i]...), rest[i+1:]...)
			perm(nr, append(acc, rest[i]))
		}
	}
	perm(keys, nil)
	for _, forward := range []bool{true, false} {
		for oi, order := range orders {
			cases++
			ts := NewTreeSet(forward)
			set := map[string]bool{}
			for _, k := range order {
				ts.Add([]byte(k))
				set[k] = true
			}
			if len(order) > 0 {
				ts.Add([]byte(order[0])) // a duplicate insert must not show twice
			}
			want := expect(set, forward)
			got := tcDrain(ts.ToCursor(), len(keys)+3)
			if fmt.Sprintf("%q", got) != fmt.Sprintf("%q", want) {
				fail("tree cursor (forward=%v) after inserting %q yields %q, want %q", forward, order, got, want)
			}
			if ts.Size() != len(want) {
				fail("tree set size %d after inserting %q, want %d", ts.Size(), order, len(want))
			}
			// union of this set with the set of another insertion order
			other := orders[(oi*7+3)%len(orders)]
			ts2 := NewTreeSet(forward)
			both := map[string]bool{}
			for k := range set {
				both[k] = true
			}
			for _, k := range other {
				ts2.Add([]byte(k))
				both[k] = true
			}
			gotU := tcDrain(NewUnionSetCursor(ts.ToCursor(), ts2.ToCursor(), forward), 2*len(keys)+3)
			if wantU := expect(both, forward); fmt.Sprintf("%q", gotU) != fmt.Sprintf("%q", wantU) {
				fail("union cursor (forward=%v) of %q and %q yields %q, want %q", forward, order, other, gotU, wantU)
			}
		}
	}
	fmt.Printf("BOUNDED-CASES %d\n", cases)
	fmt.Printf("HB-STATS tree-cursor insertion_orders=%d keys=%d directions=2\n", len(orders), len(keys))
	if fails > 0 {
		t.Fatalf("%d discrepancies", fails)
	}
}
