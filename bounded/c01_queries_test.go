package boltz

// Bounded stand-in for the whole-query half of C01 (and the text-to-result path of C02): seeded random filters over a
// fixed small dataset, evaluated by the real parser, typing pass, scanners and node evaluation on a real bbolt file,
// compared with a reference evaluator that implements the documented semantics directly on the entities. It covers
// what the per-node contracts leave out: anyOf / allOf / count / isEmpty over sets (with the index-seek shortcut of
// anyOf ... = "v"), negated forms, connectives with explicit grouping, number-to-string coercion of contains, and the
// composition of all of it. Two deviations of the code from the property that are already recorded are mirrored, not
// re-reported: a null boolean reads as false (known finding C01). Injected with `go test -overlay`; never written into
// /repo. Labelled bounded: it samples, it proves nothing.

import (
	"fmt"
	"math/rand"
	"os"
	"sort"
	"strconv"
	"strings"
	"testing"
	"time"

	"github.com/openziti/storage/ast"
	"go.etcd.io/bbolt"
)

type qdRow struct {
	Id     string
	Name   string
	Alias  *string
	Age    *int64
	Score  *float64
	Active *bool
	Born   *time.Time
	Tags   []string
	Places []string               // ids of qdPlace entities (fk set)
	Meta   map[string]interface{} // map field with string / int64 / bool values
}

func (e *qdRow) GetId() string         { return e.Id }
func (e *qdRow) SetId(id string)       { e.Id = id }
func (e *qdRow) GetEntityType() string { return "qdrows" }

type qdStrategy struct{}

func (qdStrategy) NewEntity() *qdRow { return &qdRow{} }
func (qdStrategy) FillEntity(e *qdRow, b *TypedBucket) {
	e.Name = b.GetStringOrError("name")
	e.Alias = b.GetString("alias")
	e.Age = b.GetInt64("age")
	e.Score = b.GetFloat64("score")
	e.Active = b.GetBool("active")
	e.Born = b.GetTime("born")
	e.Tags = b.GetStringList("tags")
	e.Places = b.GetStringList("places")
	e.Meta = b.GetMap("meta")
}
func (qdStrategy) PersistEntity(e *qdRow, ctx *PersistContext) {
	ctx.SetString("name", e.Name)
	ctx.SetStringP("alias", e.Alias)
	if e.Age != nil {
		ctx.SetInt64("age", *e.Age)
	}
	if e.Score != nil {
		ctx.Bucket.SetFloat64("score", *e.Score, ctx.FieldChecker)
	}
	if e.Active != nil {
		ctx.SetBool("active", *e.Active)
	}
	ctx.SetTimeP("born", e.Born)
	ctx.SetStringList("tags", e.Tags)
	ctx.SetStringList("places", e.Places)
	if e.Meta != nil {
		ctx.SetMap("meta", e.Meta)
	}
}

type qdPlace struct {
	Id    string
	Name  string
	Shops []string
}

func (e *qdPlace) GetId() string         { return e.Id }
func (e *qdPlace) SetId(id string)       { e.Id = id }
func (e *qdPlace) GetEntityType() string { return "qdplaces" }

type qdPlaceStrategy struct{}

func (qdPlaceStrategy) NewEntity() *qdPlace { return &qdPlace{} }
func (qdPlaceStrategy) FillEntity(e *qdPlace, b *TypedBucket) {
	e.Name = b.GetStringOrError("name")
	e.Shops = b.GetStringList("shops")
}
func (qdPlaceStrategy) PersistEntity(e *qdPlace, ctx *PersistContext) {
	ctx.SetString("name", e.Name)
	ctx.SetStringList("shops", e.Shops)
}

type qdPlaceStore struct{ *BaseStore[*qdPlace] }
type qdStore struct{ *BaseStore[*qdRow] }

func qdPlaces() []*qdPlace {
	return []*qdPlace{
		{Id: "pl0", Name: "zeta", Shops: nil}, // a linked place without shops that sorts before the others
		{Id: "pl1", Name: "alpha", Shops: []string{"s1", "s2"}},
		{Id: "pl2", Name: "beta", Shops: []string{"s2"}},
		{Id: "pl3", Name: "al", Shops: nil},
	}
}

func qdS(v string) *string   { return &v }
func qdI(v int64) *int64     { return &v }
func qdF(v float64) *float64 { return &v }
func qdB(v bool) *bool       { return &v }
func qdT(s string) *time.Time {
	t, err := time.Parse(time.RFC3339, s)
	if err != nil {
		panic(err)
	}
	return &t
}

var qdDates = []string{"2019-05-01T00:00:00Z", "2020-01-01T00:00:00Z", "2021-07-15T12:30:00Z", "2019-12-31T19:00:00-05:00"} // the last one is the instant of the second

func qdDataset() []*qdRow {
	return []*qdRow{
		{Id: "r01", Name: "ann", Alias: qdS("A"), Age: qdI(1), Score: qdF(1.5), Active: qdB(true), Born: qdT(qdDates[0]), Tags: []string{"x"}, Places: []string{"pl1"}, Meta: map[string]interface{}{"k": "v", "n": int64(3), "flag": true, "addr": map[string]interface{}{"city": "oslo"}}},
		{Id: "r02", Name: "bob", Alias: nil, Age: qdI(2), Score: qdF(2), Active: qdB(false), Born: qdT(qdDates[1]), Tags: []string{"x", "y"}, Places: []string{"pl0", "pl1", "pl2"}, Meta: map[string]interface{}{"k": "w", "n": int64(10), "addr": map[string]interface{}{"city": "rome", "geo": map[string]interface{}{"zone": "a"}}}},
		{Id: "r03", Name: "an", Alias: qdS("ab"), Age: nil, Score: nil, Active: nil, Born: nil, Tags: nil},
		{Id: "r04", Name: "Ann", Alias: qdS(""), Age: qdI(10), Score: qdF(-3.25), Active: qdB(true), Born: qdT(qdDates[2]), Tags: []string{"xy", "a", "b"}, Places: []string{"pl3"}, Meta: map[string]interface{}{"flag": false, "f": float64(2.5)}},
		{Id: "r05", Name: "b", Alias: qdS("bob"), Age: qdI(-1), Score: qdF(10), Active: nil, Born: qdT(qdDates[1]), Tags: []string{"y"}, Places: []string{"pl0", "pl2", "pl3"}, Meta: map[string]interface{}{"k": "", "n": int64(-1), "addr": map[string]interface{}{"city": "", "geo": map[string]interface{}{"zone": "b"}}}},
		{Id: "r06", Name: "cy", Alias: qdS("x y"), Age: qdI(2), Score: nil, Active: qdB(false), Born: nil, Tags: []string{"x", "xy", "y"}},
		{Id: "r07", Name: "", Alias: nil, Age: qdI(21), Score: qdF(2.5), Active: qdB(true), Born: qdT(qdDates[0]), Tags: []string{"ab"}},
		{Id: "r09", Name: "ed", Alias: qdS("e"), Age: qdI(4), Score: qdF(4), Active: qdB(false), Born: qdT("2020-01-01T02:00:00+02:00"), Tags: []string{"x"}}, // the same instant as qdDates[1], another zone
		{Id: "r08", Name: "di", Alias: qdS("D"), Age: qdI(3), Score: qdF(3), Active: qdB(true), Born: qdT(qdDates[2]), Tags: []string{"A", "x"}, Places: []string{"pl1", "pl2", "pl3"}, Meta: map[string]interface{}{"k": "v"}},
	}
}

// ---- reference semantics ---------------------------------------------------------------------------------------

type qdPred func(r *qdRow) bool

// cmp: the six comparison operators on two non-null operands, given "less" and "equal"
func qdCmp(op string, lt, eq bool) bool {
	switch op {
	case "=":
		return eq
	case "!=":
		return !eq
	case "<":
		return lt
	case "<=":
		return lt || eq
	case ">":
		return !lt && !eq
	case ">=":
		return !lt
	}
	panic(op)
}

// string operand against a string literal: a null operand makes every comparison false except != and the negated
// containment forms
func qdStrOp(v *string, op, lit string) bool {
	if v == nil {
		return op == "!=" || op == "not contains" || op == "not icontains"
	}
	switch op {
	case "contains":
		return strings.Contains(*v, lit)
	case "not contains":
		return !strings.Contains(*v, lit)
	case "icontains":
		return strings.Contains(strings.ToLower(*v), strings.ToLower(lit))
	case "not icontains":
		return !strings.Contains(strings.ToLower(*v), strings.ToLower(lit))
	}
	return qdCmp(op, *v < lit, *v == lit)
}

func qdNumOp(v *float64, op string, lit float64) bool {
	if v == nil {
		return op == "!="
	}
	return qdCmp(op, *v < lit, *v == lit)
}

func qdTimeOp(v *time.Time, op string, lit time.Time) bool {
	if v == nil {
		return op == "!="
	}
	return qdCmp(op, v.Before(lit), v.Equal(lit))
}

type qdAtom struct {
	text string
	pred qdPred
}

func qdQ(s string) string { return strconv.Quote(s) }

func qdAtoms(rng *rand.Rand) qdAtom {
	strLits := []string{"a", "an", "ann", "b", "x", "y", "xy", "", "A", "bob"}
	cmpOps := []string{"=", "!=", "<", "<=", ">", ">="}
	strField := func() (string, func(r *qdRow) *string) {
		if rng.Intn(2) == 0 {
			return "name", func(r *qdRow) *string { return &r.Name }
		}
		return "alias", func(r *qdRow) *string { return r.Alias }
	}
	ageF := func(r *qdRow) *float64 {
		if r.Age == nil {
			return nil
		}
		f := float64(*r.Age)
		return &f
	}
	switch rng.Intn(23) {
	case 0: // string comparison
		f, get := strField()
		op, lit := cmpOps[rng.Intn(6)], strLits[rng.Intn(len(strLits))]
		return qdAtom{fmt.Sprintf("%s %s %s", f, op, qdQ(lit)), func(r *qdRow) bool { return qdStrOp(get(r), op, lit) }}
	case 1: // containment
		f, get := strField()
		op := []string{"contains", "not contains", "icontains", "not icontains"}[rng.Intn(4)]
		lit := strLits[rng.Intn(len(strLits))]
		return qdAtom{fmt.Sprintf("%s %s %s", f, op, qdQ(lit)), func(r *qdRow) bool { return qdStrOp(get(r), op, lit) }}
	case 2: // string in / not in
		f, get := strField()
		n := 1 + rng.Intn(3)
		var lits, quoted []string
		for i := 0; i < n; i++ {
			l := strLits[rng.Intn(len(strLits))]
			lits = append(lits, l)
			quoted = append(quoted, qdQ(l))
		}
		neg := rng.Intn(3) == 0
		in := func(r *qdRow) bool {
			v := get(r)
			if v == nil {
				return false
			}
			for _, l := range lits {
				if l == *v {
					return true
				}
			}
			return false
		}
		if neg {
			return qdAtom{fmt.Sprintf("%s not in [%s]", f, strings.Join(quoted, ", ")), func(r *qdRow) bool { return !in(r) }}
		}
		return qdAtom{fmt.Sprintf("%s in [%s]", f, strings.Join(quoted, ", ")), in}
	case 3: // null tests
		f := []string{"alias", "age", "score", "born"}[rng.Intn(4)]
		isNull := map[string]func(r *qdRow) bool{
			"alias": func(r *qdRow) bool { return r.Alias == nil }, "age": func(r *qdRow) bool { return r.Age == nil },
			"score": func(r *qdRow) bool { return r.Score == nil }, "born": func(r *qdRow) bool { return r.Born == nil }}[f]
		if rng.Intn(2) == 0 {
			return qdAtom{f + " = null", isNull}
		}
		return qdAtom{f + " != null", func(r *qdRow) bool { return !isNull(r) }}
	case 4: // int comparison with an int or a float literal
		op := cmpOps[rng.Intn(6)]
		if rng.Intn(3) == 0 {
			lit := []float64{1.5, 2.0, -0.5, 10.25}[rng.Intn(4)]
			return qdAtom{fmt.Sprintf("age %s %s", op, strconv.FormatFloat(lit, 'f', -1, 64)), func(r *qdRow) bool { return qdNumOp(ageF(r), op, lit) }}
		}
		lit := []int64{-1, 0, 1, 2, 3, 10, 21}[rng.Intn(7)]
		return qdAtom{fmt.Sprintf("age %s %d", op, lit), func(r *qdRow) bool { return qdNumOp(ageF(r), op, float64(lit)) }}
	case 5: // float comparison
		op := cmpOps[rng.Intn(6)]
		lit := []float64{1.5, 2, 2.5, -3.25, 3, 10, 0}[rng.Intn(7)]
		return qdAtom{fmt.Sprintf("score %s %s", op, strconv.FormatFloat(lit, 'f', -1, 64)), func(r *qdRow) bool { return qdNumOp(r.Score, op, lit) }}
	case 6: // between: lower bound inclusive, upper bound exclusive; null is outside every range
		lo := []int64{-1, 0, 1, 2, 3}[rng.Intn(5)]
		hi := lo + int64(rng.Intn(20))
		in := func(r *qdRow) bool { return r.Age != nil && *r.Age >= lo && *r.Age < hi }
		if rng.Intn(3) == 0 {
			return qdAtom{fmt.Sprintf("age not between %d and %d", lo, hi), func(r *qdRow) bool { return !in(r) }}
		}
		return qdAtom{fmt.Sprintf("age between %d and %d", lo, hi), in}
	case 7: // number in
		lits := []int64{[]int64{1, 2, 3, 10, -1}[rng.Intn(5)], []int64{2, 21, 0}[rng.Intn(3)]}
		in := func(r *qdRow) bool { return r.Age != nil && (*r.Age == lits[0] || *r.Age == lits[1]) }
		if rng.Intn(3) == 0 {
			return qdAtom{fmt.Sprintf("age not in [%d, %d]", lits[0], lits[1]), func(r *qdRow) bool { return !in(r) }}
		}
		return qdAtom{fmt.Sprintf("age in [%d, %d]", lits[0], lits[1]), in}
	case 8: // booleans; a null boolean reads as false (recorded finding, mirrored)
		val := func(r *qdRow) bool { return r.Active != nil && *r.Active }
		switch rng.Intn(4) {
		case 0:
			return qdAtom{"active = true", val}
		case 1:
			return qdAtom{"active = false", func(r *qdRow) bool { return !val(r) }}
		case 2:
			return qdAtom{"active != true", func(r *qdRow) bool { return !val(r) }}
		}
		return qdAtom{"active", val}
	case 9: // datetime comparison
		op := cmpOps[rng.Intn(6)]
		d := qdDates[rng.Intn(len(qdDates))]
		lit := *qdT(d)
		return qdAtom{fmt.Sprintf("born %s datetime(%s)", op, d), func(r *qdRow) bool { return qdTimeOp(r.Born, op, lit) }}
	case 15: // datetime in / not in
		d1, d2 := qdDates[rng.Intn(len(qdDates))], qdDates[rng.Intn(len(qdDates))]
		t1, t2 := *qdT(d1), *qdT(d2)
		in := func(r *qdRow) bool { return r.Born != nil && (r.Born.Equal(t1) || r.Born.Equal(t2)) }
		if rng.Intn(3) == 0 {
			return qdAtom{fmt.Sprintf("born not in [datetime(%s), datetime(%s)]", d1, d2), func(r *qdRow) bool { return !in(r) }}
		}
		return qdAtom{fmt.Sprintf("born in [datetime(%s), datetime(%s)]", d1, d2), in}
	case 10: // datetime between
		lo, hi := *qdT(qdDates[0]), *qdT(qdDates[1+rng.Intn(3)])
		return qdAtom{fmt.Sprintf("born between datetime(%s) and datetime(%s)", lo.Format(time.RFC3339), hi.Format(time.RFC3339)),
			func(r *qdRow) bool { return r.Born != nil && !r.Born.Before(lo) && r.Born.Before(hi) }}
	case 11, 12: // anyOf / allOf over the tag set
		all := rng.Intn(2) == 0
		var op, lit string
		if rng.Intn(3) == 0 {
			op = []string{"contains", "not contains", "icontains"}[rng.Intn(3)]
		} else {
			op = cmpOps[rng.Intn(6)]
		}
		lit = []string{"x", "y", "xy", "a", "A", "ab", "z", ""}[rng.Intn(8)]
		fn := "anyOf"
		if all {
			fn = "allOf"
		}
		return qdAtom{fmt.Sprintf("%s(tags) %s %s", fn, op, qdQ(lit)), func(r *qdRow) bool {
			for _, t := range r.Tags {
				t := t
				if qdStrOp(&t, op, lit) != all {
					return !all
				}
			}
			return all
		}}
	case 13: // count
		op := cmpOps[rng.Intn(6)]
		n := int64(rng.Intn(4))
		return qdAtom{fmt.Sprintf("count(tags) %s %d", op, n), func(r *qdRow) bool {
			c := int64(len(r.Tags))
			return qdCmp(op, c < n, c == n)
		}}
	case 14: // isEmpty
		return qdAtom{"isEmpty(tags)", func(r *qdRow) bool { return len(r.Tags) == 0 }}
	case 17, 18: // dotted symbols through an fk set: anyOf / allOf (places.name), anyOf(places) = id, anyOf(places.shops)
		placeOf := map[string]*qdPlace{}
		for _, p := range qdPlaces() {
			placeOf[p.Id] = p
		}
		switch rng.Intn(4) {
		case 0:
			id := []string{"pl1", "pl2", "pl3", "pl9", "pl0"}[rng.Intn(5)]
			return qdAtom{fmt.Sprintf("anyOf(places) = %s", qdQ(id)), func(r *qdRow) bool {
				for _, p := range r.Places {
					if p == id {
						return true
					}
				}
				return false
			}}
		case 1:
			shop := []string{"s1", "s2", "s3"}[rng.Intn(3)]
			return qdAtom{fmt.Sprintf("anyOf(places.shops) = %s", qdQ(shop)), func(r *qdRow) bool {
				for _, p := range r.Places {
					for _, s := range placeOf[p].Shops {
						if s == shop {
							return true
						}
					}
				}
				return false
			}}
		}
		all := rng.Intn(2) == 0
		op := append(append([]string{}, cmpOps...), "contains")[rng.Intn(7)]
		lit := []string{"alpha", "beta", "al", "a", "gamma", "zeta"}[rng.Intn(6)]
		fn := "anyOf"
		if all {
			fn = "allOf"
		}
		return qdAtom{fmt.Sprintf("%s(places.name) %s %s", fn, op, qdQ(lit)), func(r *qdRow) bool {
			for _, p := range r.Places {
				n := placeOf[p].Name
				if qdStrOp(&n, op, lit) != all {
					return !all
				}
			}
			return all
		}}
	case 19: // sub-queries over the fk set
		placeOf := map[string]*qdPlace{}
		for _, p := range qdPlaces() {
			placeOf[p.Id] = p
		}
		lit := []string{"alpha", "beta", "al", "gamma"}[rng.Intn(4)]
		shop := []string{"s1", "s2", "s3"}[rng.Intn(3)]
		matches := func(r *qdRow) int64 {
			var n int64
			for _, p := range r.Places {
				pl := placeOf[p]
				hasShop := false
				for _, s := range pl.Shops {
					if s == shop {
						hasShop = true
					}
				}
				if pl.Name == lit || hasShop {
					n++
				}
			}
			return n
		}
		sub := fmt.Sprintf("from places where name = %s or anyOf(shops) = %s", qdQ(lit), qdQ(shop))
		switch rng.Intn(3) {
		case 0:
			return qdAtom{"isEmpty(" + sub + ")", func(r *qdRow) bool { return matches(r) == 0 }}
		case 1:
			return qdAtom{"not isEmpty(" + sub + ")", func(r *qdRow) bool { return matches(r) != 0 }}
		}
		op := cmpOps[rng.Intn(6)]
		n := int64(rng.Intn(3))
		return qdAtom{fmt.Sprintf("count(%s) %s %d", sub, op, n), func(r *qdRow) bool { c := matches(r); return qdCmp(op, c < n, c == n) }}
	case 22: // the index-seek shortcut: anyOf(set) = literal is answered by seeking the set's cursor to the literal
		if rng.Intn(3) == 0 {
			lit := []string{"pl1", "pl2", "pl3", "pl", "pl10", ""}[rng.Intn(6)]
			return qdAtom{fmt.Sprintf("anyOf(places) = %s", qdQ(lit)), func(r *qdRow) bool {
				for _, t := range r.Places {
					if t == lit {
						return true
					}
				}
				return false
			}}
		}
		lit := []string{"x", "y", "xy", "a", "A", "ab", "z", "", "b", "xyz", "B"}[rng.Intn(11)]
		return qdAtom{fmt.Sprintf("anyOf(tags) = %s", qdQ(lit)), func(r *qdRow) bool {
			for _, t := range r.Tags {
				if t == lit {
					return true
				}
			}
			return false
		}}
	case 20: // map field entries (any-typed): string, integer and boolean values compared with a literal of their kind
		if rng.Intn(4) == 0 {
			// a float held by a map entry meets literals written with and without a fraction
			op := cmpOps[rng.Intn(6)]
			litText, lit := []string{"2", "3", "2.5", "2.0"}[rng.Intn(4)], 0.0
			fmt.Sscan(litText, &lit)
			return qdAtom{fmt.Sprintf("meta.f %s %s", op, litText), func(r *qdRow) bool {
				if f, ok := r.Meta["f"].(float64); ok {
					return qdNumOp(&f, op, lit)
				}
				return qdNumOp(nil, op, lit)
			}}
		}
		if rng.Intn(4) == 0 {
			// entries of nested maps: every further dot goes one map deeper
			path, key := "meta.addr.city", []string{"addr", "city"}
			lits := []string{"rome", "oslo", "", "ro"}
			if rng.Intn(2) == 0 {
				path, key = "meta.addr.geo.zone", []string{"addr", "geo", "zone"}
				lits = []string{"a", "b", "c", ""}
			}
			op, lit := cmpOps[rng.Intn(6)], lits[rng.Intn(4)]
			return qdAtom{fmt.Sprintf("%s %s %s", path, op, qdQ(lit)), func(r *qdRow) bool {
				var cur interface{} = r.Meta
				for _, k := range key {
					m, ok := cur.(map[string]interface{})
					if !ok {
						return qdStrOp(nil, op, lit)
					}
					cur = m[k]
				}
				if v, ok := cur.(string); ok {
					return qdStrOp(&v, op, lit)
				}
				return qdStrOp(nil, op, lit)
			}}
		}
		switch rng.Intn(3) {
		case 0:
			op, lit := cmpOps[rng.Intn(6)], []string{"v", "w", "", "x"}[rng.Intn(4)]
			return qdAtom{fmt.Sprintf("meta.k %s %s", op, qdQ(lit)), func(r *qdRow) bool {
				if s, ok := r.Meta["k"].(string); ok {
					return qdStrOp(&s, op, lit)
				}
				return qdStrOp(nil, op, lit)
			}}
		case 1:
			op, lit := cmpOps[rng.Intn(6)], []int64{3, 10, -1, 0}[rng.Intn(4)]
			return qdAtom{fmt.Sprintf("meta.n %s %d", op, lit), func(r *qdRow) bool {
				if n, ok := r.Meta["n"].(int64); ok {
					f := float64(n)
					return qdNumOp(&f, op, float64(lit))
				}
				return qdNumOp(nil, op, float64(lit))
			}}
		}
		val := func(r *qdRow) bool { b, ok := r.Meta["flag"].(bool); return ok && b }
		if rng.Intn(2) == 0 {
			return qdAtom{"meta.flag = true", val}
		}
		return qdAtom{"meta.flag = false", func(r *qdRow) bool { return !val(r) }}
	}
	// number-to-string coercion: contains on a numeric symbol
	lit := []string{"1", "2", "0", "-"}[rng.Intn(4)]
	num, err := strconv.Atoi(lit)
	if err != nil {
		return qdAtom{fmt.Sprintf("age contains %s", qdQ(lit)), func(r *qdRow) bool {
			return r.Age != nil && strings.Contains(strconv.FormatInt(*r.Age, 10), lit)
		}}
	}
	return qdAtom{fmt.Sprintf("age contains %d", num), func(r *qdRow) bool {
		return r.Age != nil && strings.Contains(strconv.FormatInt(*r.Age, 10), lit)
	}}
}

// expr: a random boolean combination, always fully parenthesised
func qdExpr(rng *rand.Rand, depth int) qdAtom {
	if depth == 0 || rng.Intn(3) == 0 {
		return qdAtoms(rng)
	}
	switch rng.Intn(4) {
	case 0:
		a := qdExpr(rng, depth-1)
		return qdAtom{"not (" + a.text + ")", func(r *qdRow) bool { return !a.pred(r) }}
	case 1:
		a, b := qdExpr(rng, depth-1), qdExpr(rng, depth-1)
		return qdAtom{"(" + a.text + ") or (" + b.text + ")", func(r *qdRow) bool { return a.pred(r) || b.pred(r) }}
	}
	a, b := qdExpr(rng, depth-1), qdExpr(rng, depth-1)
	return qdAtom{"(" + a.text + ") and (" + b.text + ")", func(r *qdRow) bool { return a.pred(r) && b.pred(r) }}
}

func TestVerifBoundedQueries(t *testing.T) {
	seed, _ := strconv.Atoi(os.Getenv("VERIF_SEED"))
	n := 1500
	if os.Getenv("VERIF_BOUNDED_LEVEL") == "thorough" {
		n = 40000
	}
	f, err := os.CreateTemp("", "verif-bounded-qd")
	if err != nil {
		t.Fatal(err)
	}
	_ = f.Close()
	defer os.Remove(f.Name())
	db, err := bbolt.Open(f.Name(), 0600, &bbolt.Options{NoSync: true})
	if err != nil {
		t.Fatal(err)
	}
	defer db.Close()
	store := &qdStore{NewBaseStore(StoreDefinition[*qdRow]{EntityType: "qdrows", EntityStrategy: qdStrategy{},
		EntityNotFoundF: func(id string) error { return NewNotFoundError("qdrow", "id", id) }, BasePath: []string{"qd"}})}
	store.InitImpl(store)
	store.AddIdSymbol("id", ast.NodeTypeString)
	store.AddSymbol("name", ast.NodeTypeString)
	store.AddSymbol("alias", ast.NodeTypeString)
	store.AddSymbol("age", ast.NodeTypeInt64)
	store.AddSymbol("score", ast.NodeTypeFloat64)
	store.AddSymbol("active", ast.NodeTypeBool)
	store.AddSymbol("born", ast.NodeTypeDatetime)
	store.AddSetSymbol("tags", ast.NodeTypeString)
	places := &qdPlaceStore{NewBaseStore(StoreDefinition[*qdPlace]{EntityType: "qdplaces", EntityStrategy: qdPlaceStrategy{},
		EntityNotFoundF: func(id string) error { return NewNotFoundError("qdplace", "id", id) }, BasePath: []string{"qd"}})}
	places.InitImpl(places)
	places.AddIdSymbol("id", ast.NodeTypeString)
	places.AddSymbol("name", ast.NodeTypeString)
	places.AddSetSymbol("shops", ast.NodeTypeString)
	store.AddFkSetSymbol("places", places)
	store.AddMapSymbol("meta", ast.NodeTypeAnyType, "meta")
	rows := qdDataset()
	err = db.Update(func(tx *bbolt.Tx) error {
		ctx := NewTxMutateContext(nil, tx)
		for _, p := range qdPlaces() {
			if err := places.Create(ctx, p); err != nil {
				return err
			}
		}
		for _, r := range rows {
			if err := store.Create(ctx, r); err != nil {
				return err
			}
		}
		return nil
	})
	if err != nil {
		t.Fatalf("setup: %v", err)
	}
	rng := rand.New(rand.NewSource(int64(seed)*104729 + 7))
	fails, distinct, nontrivial := 0, map[string]bool{}, 0
	_ = db.View(func(tx *bbolt.Tx) error {
		for i := 0; i < n && fails < 10; i++ {
			q := qdExpr(rng, 3)
			var want []string
			for _, r := range rows {
				if q.pred(r) {
					want = append(want, r.Id)
				}
			}
			sort.Strings(want)
			got, count, err := store.QueryIds(tx, q.text)
			if err != nil {
				fails++
				fmt.Printf("BOUNDED-FAIL query %s: rejected: %v\n", strconv.Quote(q.text), err)
				continue
			}
			sort.Strings(got)
			if strings.Join(got, ",") != strings.Join(want, ",") || count != int64(len(want)) {
				fails++
				fmt.Printf("BOUNDED-FAIL query %s: returns %v (count %d), the documented semantics give %v\n", strconv.Quote(q.text), got, count, want)
			}
			if !distinct[q.text] {
				distinct[q.text] = true
				if len(want) > 0 && len(want) < len(rows) {
					nontrivial++
				}
			}
			// the same filter with sort, skip and limit: the page of the sorted result
			if i%4 == 0 {
				skip, limit := rng.Intn(3), 1+rng.Intn(4)
				desc := rng.Intn(2) == 0
				dir := "asc"
				if desc {
					dir = "desc"
				}
				var ms []*qdRow
				for _, r := range rows {
					if q.pred(r) {
						ms = append(ms, r)
					}
				}
				sort.SliceStable(ms, func(a, b int) bool {
					if ms[a].Name != ms[b].Name {
						if desc {
							return ms[a].Name > ms[b].Name
						}
						return ms[a].Name < ms[b].Name
					}
					return ms[a].Id < ms[b].Id
				})
				var page []string
				for j := skip; j < len(ms) && j < skip+limit; j++ {
					page = append(page, ms[j].Id)
				}
				pq := fmt.Sprintf("%s sort by name %s skip %d limit %d", q.text, dir, skip, limit)
				got, count, err := store.QueryIds(tx, pq)
				if err != nil || strings.Join(got, ",") != strings.Join(page, ",") || count != int64(len(ms)) {
					fails++
					fmt.Printf("BOUNDED-FAIL query %s: returns %v (count %d, err %v), expected page %v of %d\n", strconv.Quote(pq), got, count, err, page, len(ms))
				}
			}
		}
		return nil
	})
	fmt.Printf("BOUNDED-CASES %d\n", n)
	fmt.Printf("HB-STATS queries=%d distinct=%d distinct_nontrivial=%d rows=%d seed=%d\n", n, len(distinct), nontrivial, len(rows), seed)
	if fails > 0 {
		t.Fatalf("%d discrepancies", fails)
	}
}
