package boltz

// Bounded stand-in for the history half of C03/C04/C05/C06/C15: seeded random operation histories on the real code
// and a real bbolt file, over stores that combine a unique index, a nullable unique index, a set index, a nullable
// fk index (restrict on delete), a plain link collection, a reference-counted link collection and a child store with
// its own unique index. After every operation the outcome (accepted / rejected) and what the indexes, back-references,
// links, counts and both stores answer are compared with a reference model; after every history (and after every
// accepted delete) the whole database is compared, key by key, with a database built freshly from the model's state
// (so stale entries, empty index keys and leftovers of deleted ids show up wherever they are), and
// boltz.ValidateDeleted is asked about every id that is not alive.
// Injected with `go test -overlay` by `govc check`; never written into /repo. Labelled bounded: it samples histories,
// it proves nothing. Prints BOUNDED-FAIL lines, BOUNDED-CASES (operations run) and one HB-STATS line.

import (
	"context"
	"fmt"
	"math/rand"
	"os"
	"sort"
	"strconv"
	"strings"
	"testing"

	"github.com/openziti/foundation/v2/errorz"
	"github.com/openziti/storage/ast"
	"go.etcd.io/bbolt"
)

// ---- entities and stores ----------------------------------------------------------------------------------------

type hbTeam struct{ Id string }

func (e *hbTeam) GetId() string         { return e.Id }
func (e *hbTeam) SetId(id string)       { e.Id = id }
func (e *hbTeam) GetEntityType() string { return "hbteams" }

type hbTeamStrategy struct{}

func (hbTeamStrategy) NewEntity() *hbTeam                     { return &hbTeam{} }
func (hbTeamStrategy) FillEntity(*hbTeam, *TypedBucket)       {}
func (hbTeamStrategy) PersistEntity(*hbTeam, *PersistContext) {}

type hbPerson struct {
	Id   string
	Name string
	Nick *string
	Tags []string
	Team *string
}

func (e *hbPerson) GetId() string         { return e.Id }
func (e *hbPerson) SetId(id string)       { e.Id = id }
func (e *hbPerson) GetEntityType() string { return "hbpeople" }

type hbPersonStrategy struct{}

func (hbPersonStrategy) NewEntity() *hbPerson { return &hbPerson{} }
func (hbPersonStrategy) FillEntity(e *hbPerson, b *TypedBucket) {
	e.Name = b.GetStringOrError("name")
	e.Nick = b.GetString("nick")
	e.Tags = b.GetStringList("tags")
	e.Team = b.GetString("team")
}
func (hbPersonStrategy) PersistEntity(e *hbPerson, ctx *PersistContext) {
	ctx.SetString("name", e.Name)
	ctx.SetStringP("nick", e.Nick)
	ctx.SetStringList("tags", e.Tags)
	ctx.SetStringP("team", e.Team)
}

type hbVip struct {
	hbPerson
	Level int32
	Badge string
}

type hbVipStrategy struct{ people *BaseStore[*hbPerson] }

func (s *hbVipStrategy) NewEntity() *hbVip { return &hbVip{} }
func (s *hbVipStrategy) FillEntity(e *hbVip, b *TypedBucket) {
	_, err := s.people.LoadEntity(b.Tx(), e.Id, &e.hbPerson)
	b.SetError(err)
	e.Level = b.GetInt32WithDefault("level", 0)
	e.Badge = b.GetStringOrError("badge")
}
func (s *hbVipStrategy) PersistEntity(e *hbVip, ctx *PersistContext) {
	s.people.GetEntityStrategy().PersistEntity(&e.hbPerson, ctx.GetParentContext())
	ctx.SetInt32("level", e.Level)
	ctx.SetString("badge", e.Badge)
}

type hbNote struct {
	Id    string
	Owner string
}

func (e *hbNote) GetId() string         { return e.Id }
func (e *hbNote) SetId(id string)       { e.Id = id }
func (e *hbNote) GetEntityType() string { return "hbnotes" }

type hbNoteStrategy struct{}

func (hbNoteStrategy) NewEntity() *hbNote                           { return &hbNote{} }
func (hbNoteStrategy) FillEntity(e *hbNote, b *TypedBucket)         { e.Owner = b.GetStringOrError("owner") }
func (hbNoteStrategy) PersistEntity(e *hbNote, ctx *PersistContext) { ctx.SetString("owner", e.Owner) }

type hbNoteStore struct{ *BaseStore[*hbNote] }
type hbTeamStore struct{ *BaseStore[*hbTeam] }
type hbPeopleStore struct{ *BaseStore[*hbPerson] }
type hbVipStore struct{ *BaseStore[*hbVip] }

type hbWorld struct {
	path     string
	db       *bbolt.DB
	teams    *hbTeamStore
	people   *hbPeopleStore
	vips     *hbVipStore
	notes    *hbNoteStore // owner: fk constraint on people with cascade delete
	idxName  ReadIndex
	idxNick  ReadIndex
	idxTags  SetReadIndex
	idxBadge ReadIndex
	follows  LinkCollection           // people -> teams
	followed LinkCollection           // teams -> people
	visits   RefCountedLinkCollection // people -> teams
	visited  RefCountedLinkCollection // teams -> people
}

func newHbWorld(t *testing.T) *hbWorld {
	w := &hbWorld{}
	f, err := os.CreateTemp("", "verif-bounded-hb")
	if err != nil {
		t.Fatal(err)
	}
	_ = f.Close()
	w.path = f.Name()
	if w.db, err = bbolt.Open(w.path, 0600, &bbolt.Options{NoSync: true}); err != nil {
		t.Fatal(err)
	}
	w.teams = &hbTeamStore{NewBaseStore(StoreDefinition[*hbTeam]{EntityType: "hbteams", EntityStrategy: hbTeamStrategy{},
		EntityNotFoundF: func(id string) error { return NewNotFoundError("hbteam", "id", id) }, BasePath: []string{"hb"}})}
	w.teams.InitImpl(w.teams)
	w.people = &hbPeopleStore{NewBaseStore(StoreDefinition[*hbPerson]{EntityType: "hbpeople", EntityStrategy: hbPersonStrategy{},
		EntityNotFoundF: func(id string) error { return NewNotFoundError("hbperson", "id", id) }, BasePath: []string{"hb"}})}
	w.people.InitImpl(w.people)
	w.vips = &hbVipStore{NewBaseStore(StoreDefinition[*hbVip]{EntityStrategy: &hbVipStrategy{people: w.people.BaseStore},
		EntityNotFoundF: func(id string) error { return NewNotFoundError("hbvip", "id", id) }, BasePath: []string{"vip"},
		Parent: w.people, ParentMapper: func(e Entity) Entity {
			if v, ok := e.(*hbVip); ok {
				return &v.hbPerson
			}
			return e
		}})}
	w.vips.InitImpl(w.vips)
	w.people.RegisterChildStoreStrategy(&ChildStoreUpdateHandler[*hbPerson, *hbVip]{Store: w.vips,
		Mapper: func(ctx MutateContext, parent *hbPerson) (*hbVip, bool) {
			v, found, _ := w.vips.FindById(ctx.Tx(), parent.Id)
			if !found || v == nil {
				return nil, false
			}
			v.hbPerson = *parent // the update carries the parent's (shared) fields
			return v, true
		}})

	w.notes = &hbNoteStore{NewBaseStore(StoreDefinition[*hbNote]{EntityType: "hbnotes", EntityStrategy: hbNoteStrategy{},
		EntityNotFoundF: func(id string) error { return NewNotFoundError("hbnote", "id", id) }, BasePath: []string{"hb"}})}
	w.notes.InitImpl(w.notes)
	w.notes.AddIdSymbol("id", ast.NodeTypeString)
	w.notes.AddFkConstraint(w.notes.AddFkSymbol("owner", w.people), false, CascadeDelete)
	w.teams.AddIdSymbol("id", ast.NodeTypeString)
	w.people.AddIdSymbol("id", ast.NodeTypeString)
	w.idxName = w.people.AddUniqueIndex(w.people.AddSymbol("name", ast.NodeTypeString))
	w.idxNick = w.people.AddNullableUniqueIndex(w.people.AddSymbol("nick", ast.NodeTypeString))
	w.idxTags = w.people.AddSetIndex(w.people.AddSetSymbol("tags", ast.NodeTypeString))
	symTeam := w.people.AddFkSymbol("team", w.teams)
	symMembers := w.teams.AddFkSetSymbol("members", w.people)
	w.people.AddNullableFkIndex(symTeam, symMembers)
	symFollows := w.people.AddFkSetSymbol("follows", w.teams)
	symFollowed := w.teams.AddFkSetSymbol("followed", w.people)
	w.follows = w.people.AddLinkCollection(symFollows, symFollowed)
	w.followed = w.teams.AddLinkCollection(symFollowed, symFollows)
	symVisits := w.people.AddFkSetSymbol("visits", w.teams)
	symVisited := w.teams.AddFkSetSymbol("visited", w.people)
	w.visits = w.people.AddRefCountedLinkCollection(symVisits, symVisited)
	w.visited = w.teams.AddRefCountedLinkCollection(symVisited, symVisits)
	w.people.GrantSymbols(w.vips)
	w.vips.AddSymbol("level", ast.NodeTypeInt64)
	w.idxBadge = w.vips.AddUniqueIndex(w.vips.AddSymbol("badge", ast.NodeTypeString))

	err = w.db.Update(func(tx *bbolt.Tx) error {
		h := &errorz.ErrorHolderImpl{}
		w.teams.InitializeIndexes(tx, h)
		w.people.InitializeIndexes(tx, h)
		w.vips.InitializeIndexes(tx, h)
		w.notes.InitializeIndexes(tx, h)
		return h.Err
	})
	if err != nil {
		t.Fatal(err)
	}
	return w
}

func (w *hbWorld) close() {
	_ = w.db.Close()
	_ = os.Remove(w.path)
}

// ---- reference model --------------------------------------------------------------------------------------------

type hbMP struct {
	name  string
	nick  *string
	tags  []string // sorted, unique
	team  *string
	vip   bool
	level int32
	badge string
}

type hbModel struct {
	teams  map[string]bool
	people map[string]*hbMP
	links  map[[2]string]bool  // (person, team)
	rc     map[[2]string]int32 // (person, team) -> count > 0
	notes  map[string]string   // note id -> owner (person id); deleted with the owner
}

func newHbModel() *hbModel {
	return &hbModel{teams: map[string]bool{}, people: map[string]*hbMP{}, links: map[[2]string]bool{}, rc: map[[2]string]int32{}, notes: map[string]string{}}
}

func hbStrP(p *string) string {
	if p == nil {
		return "<nil>"
	}
	return *p
}

func hbNorm(tags []string) []string {
	m := map[string]bool{}
	for _, t := range tags {
		m[t] = true
	}
	var out []string
	for t := range m {
		out = append(out, t)
	}
	sort.Strings(out)
	return out
}

// uniqueness conflicts of giving person id these values
func (m *hbModel) conflict(id, name string, nick *string, badge *string) bool {
	for oid, o := range m.people {
		if oid == id {
			continue
		}
		if o.name == name {
			return true
		}
		if nick != nil && o.nick != nil && *o.nick == *nick {
			return true
		}
		if badge != nil && o.vip && o.badge == *badge {
			return true
		}
	}
	return false
}

type hbChecker map[string]bool

func (c hbChecker) IsUpdated(f string) bool { return c[f] }

// ---- the run ----------------------------------------------------------------------------------------------------

type hbRun struct {
	t     *testing.T
	w     *hbWorld
	m     *hbModel
	trace []string
	fails *int
}

func (r *hbRun) fail(format string, args ...interface{}) {
	*r.fails++
	if *r.fails <= 12 {
		tr := r.trace
		if len(tr) > 14 {
			tr = tr[len(tr)-14:]
		}
		fmt.Printf("BOUNDED-FAIL %s || after: %s\n", fmt.Sprintf(format, args...), strings.Join(tr, " ; "))
	}
}

func (r *hbRun) tx(f func(ctx MutateContext) error) error {
	return r.w.db.Update(func(tx *bbolt.Tx) error { return f(NewTxMutateContext(nil, tx)) })
}

// expect: the operation must be rejected exactly when the model says so
func (r *hbRun) expect(desc string, wantErr bool, err error) bool {
	r.trace = append(r.trace, desc)
	if wantErr && err == nil {
		r.fail("%s was accepted but must be rejected", desc)
		return false
	}
	if !wantErr && err != nil {
		r.fail("%s was rejected (%v) but must be accepted", desc, err)
		return false
	}
	return err == nil
}

func hbSorted(m map[string]bool) []string {
	var out []string
	for k, v := range m {
		if v {
			out = append(out, k)
		}
	}
	sort.Strings(out)
	return out
}

func hbJoin(s []string) string { sort.Strings(s); return strings.Join(s, ",") }

// check compares what the stores answer with the model
func (r *hbRun) check() {
	w, m := r.w, r.m
	_ = w.db.View(func(tx *bbolt.Tx) error {
		wantPeople, wantVips := map[string]bool{}, map[string]bool{}
		for id, p := range m.people {
			wantPeople[id] = true
			if p.vip {
				wantVips[id] = true
			}
		}
		if ids, _, err := w.people.QueryIds(tx, "true"); err != nil || hbJoin(ids) != hbJoin(hbSorted(wantPeople)) {
			r.fail("people store lists %v (err %v), model %v", ids, err, hbSorted(wantPeople))
		}
		if ids, _, err := w.vips.QueryIds(tx, "true"); err != nil || hbJoin(ids) != hbJoin(hbSorted(wantVips)) {
			r.fail("child store lists %v (err %v), model %v", ids, err, hbSorted(wantVips))
		}
		if ids, _, err := w.teams.QueryIds(tx, "true"); err != nil || hbJoin(ids) != hbJoin(hbSorted(m.teams)) {
			r.fail("team store lists %v (err %v), model %v", ids, err, hbSorted(m.teams))
		}
		wantNotes := map[string]bool{}
		for id, owner := range m.notes {
			wantNotes[id] = true
			if n, found, err := w.notes.FindById(tx, id); err != nil || !found || n.Owner != owner {
				r.fail("note %s not found or wrong owner (found=%v err=%v), model owner %s", id, found, err, owner)
			}
		}
		if ids, _, err := w.notes.QueryIds(tx, "true"); err != nil || hbJoin(ids) != hbJoin(hbSorted(wantNotes)) {
			r.fail("note store lists %v (err %v), model %v", ids, err, hbSorted(wantNotes))
		}
		byTag := map[string]map[string]bool{}
		members := map[string]map[string]bool{}
		for id, p := range m.people {
			e, found, err := w.people.FindById(tx, id)
			if err != nil || !found {
				r.fail("person %s not found (%v)", id, err)
				continue
			}
			if e.Name != p.name || hbStrP(e.Nick) != hbStrP(p.nick) || hbStrP(e.Team) != hbStrP(p.team) || hbJoin(append([]string{}, e.Tags...)) != hbJoin(append([]string{}, p.tags...)) {
				r.fail("person %s reads back {%s %s %v %s}, model {%s %s %v %s}", id, e.Name, hbStrP(e.Nick), e.Tags, hbStrP(e.Team), p.name, hbStrP(p.nick), p.tags, hbStrP(p.team))
			}
			if got := string(w.idxName.Read(tx, []byte(p.name))); got != id {
				r.fail("unique index name[%s] = %q, want %s", p.name, got, id)
			}
			if p.nick != nil {
				if got := string(w.idxNick.Read(tx, []byte(*p.nick))); got != id {
					r.fail("nullable unique index nick[%s] = %q, want %s", *p.nick, got, id)
				}
			}
			for _, tg := range p.tags {
				if byTag[tg] == nil {
					byTag[tg] = map[string]bool{}
				}
				byTag[tg][id] = true
			}
			if p.team != nil {
				if members[*p.team] == nil {
					members[*p.team] = map[string]bool{}
				}
				members[*p.team][id] = true
			}
			v, vfound, verr := w.vips.FindById(tx, id)
			if verr != nil || vfound != p.vip {
				r.fail("child store finds %s = %v (err %v), model vip=%v", id, vfound, verr, p.vip)
			} else if p.vip {
				if v.Level != p.level || v.Badge != p.badge || v.Name != p.name {
					r.fail("vip %s reads back {%d %s %s}, model {%d %s %s}", id, v.Level, v.Badge, v.Name, p.level, p.badge, p.name)
				}
				if got := string(w.idxBadge.Read(tx, []byte(p.badge))); got != id {
					r.fail("child unique index badge[%s] = %q, want %s", p.badge, got, id)
				}
			}
			if w.vips.IsEntityPresent(tx, id) != p.vip {
				r.fail("child store IsEntityPresent(%s) != %v", id, p.vip)
			}
		}
		// set index: exactly the model's keys, each with exactly the model's ids
		var keys []string
		w.idxTags.ReadKeys(tx, func(val []byte) { keys = append(keys, string(val)) })
		var wantKeys []string
		for k := range byTag {
			wantKeys = append(wantKeys, k)
		}
		if hbJoin(keys) != hbJoin(wantKeys) {
			r.fail("set index keys %v, model %v", keys, wantKeys)
		}
		for k, ids := range byTag {
			var got []string
			w.idxTags.Read(tx, []byte(k), func(val []byte) { got = append(got, string(val)) })
			if hbJoin(got) != hbJoin(hbSorted(ids)) {
				r.fail("set index tags[%s] = %v, model %v", k, got, hbSorted(ids))
			}
		}
		for t := range m.teams {
			got := w.teams.GetRelatedEntitiesIdList(tx, t, "members")
			if hbJoin(got) != hbJoin(hbSorted(members[t])) {
				r.fail("back-references of team %s = %v, model %v", t, got, hbSorted(members[t]))
			}
			var wantFollowed []string
			for k := range m.links {
				if k[1] == t {
					wantFollowed = append(wantFollowed, k[0])
				}
			}
			if got := w.followed.GetLinks(tx, t); hbJoin(got) != hbJoin(wantFollowed) {
				r.fail("team %s is followed by %v, model %v", t, got, wantFollowed)
			}
		}
		for id := range m.people {
			var wantFollows []string
			for k := range m.links {
				if k[0] == id {
					wantFollows = append(wantFollows, k[1])
				}
			}
			if got := w.follows.GetLinks(tx, id); hbJoin(got) != hbJoin(wantFollows) {
				r.fail("person %s follows %v, model %v", id, got, wantFollows)
			}
			for t := range m.teams {
				a, b := w.visits.GetLinkCounts(tx, []byte(id), []byte(t))
				want := m.rc[[2]string{id, t}]
				ga, gb := int32(0), int32(0)
				if a != nil {
					ga = *a
				}
				if b != nil {
					gb = *b
				}
				if ga != want || gb != want || (want == 0 && (a != nil || b != nil)) {
					r.fail("visit count %s<->%s is %d / %d (present %v / %v), model %d", id, t, ga, gb, a != nil, b != nil, want)
				}
			}
		}
		return nil
	})
}

// dump: the whole database as sorted "path/key=value" lines; empty buckets are dropped except below an indexes bucket
func hbDump(db *bbolt.DB) []string {
	var out []string
	_ = db.View(func(tx *bbolt.Tx) error {
		var walk func(b interface {
			Cursor() *bbolt.Cursor
			Bucket([]byte) *bbolt.Bucket
		}, path string) int
		walk = func(b interface {
			Cursor() *bbolt.Cursor
			Bucket([]byte) *bbolt.Bucket
		}, path string) int {
			n := 0
			c := b.Cursor()
			for k, v := c.First(); k != nil; k, v = c.Next() {
				if v == nil {
					if child := b.Bucket(k); child != nil {
						p := path + "/" + strconv.Quote(string(k))
						cn := walk(child, p)
						if cn == 0 && strings.Contains(path, "/\"indexes\"/") {
							out = append(out, p+"/ (empty bucket)")
							cn = 1
						}
						n += cn
						continue
					}
				}
				out = append(out, path+"/"+strconv.Quote(string(k))+"="+strconv.Quote(string(v)))
				n++
			}
			return n
		}
		walk(tx, "")
		return nil
	})
	sort.Strings(out)
	return out
}

// build: a database constructed freshly from the model's state
func (r *hbRun) fresh() *hbWorld {
	w2 := newHbWorld(r.t)
	m := r.m
	err := w2.db.Update(func(tx *bbolt.Tx) error {
		ctx := NewTxMutateContext(nil, tx)
		for _, t := range hbSorted(m.teams) {
			if err := w2.teams.Create(ctx, &hbTeam{Id: t}); err != nil {
				return err
			}
		}
		var ids []string
		for id := range m.people {
			ids = append(ids, id)
		}
		sort.Strings(ids)
		for _, id := range ids {
			p := m.people[id]
			base := hbPerson{Id: id, Name: p.name, Nick: p.nick, Tags: append([]string{}, p.tags...), Team: p.team}
			var err error
			if p.vip {
				err = w2.vips.Create(ctx, &hbVip{hbPerson: base, Level: p.level, Badge: p.badge})
			} else {
				err = w2.people.Create(ctx, &base)
			}
			if err != nil {
				return err
			}
		}
		for _, id := range hbSorted(func() map[string]bool {
			s := map[string]bool{}
			for k := range m.notes {
				s[k] = true
			}
			return s
		}()) {
			if err := w2.notes.Create(ctx, &hbNote{Id: id, Owner: m.notes[id]}); err != nil {
				return err
			}
		}
		for k := range m.links {
			if err := w2.follows.AddLinks(tx, k[0], k[1]); err != nil {
				return err
			}
		}
		for k, n := range m.rc {
			if _, _, err := w2.visits.SetLinkCount(tx, []byte(k[0]), []byte(k[1]), int(n)); err != nil {
				return err
			}
		}
		return nil
	})
	if err != nil {
		r.fail("the model's state cannot be built freshly: %v", err)
	}
	return w2
}

func (r *hbRun) compareWithFresh(why string, universe []string) {
	w2 := r.fresh()
	defer w2.close()
	a, b := hbDump(r.w.db), hbDump(w2.db)
	if strings.Join(a, "\n") != strings.Join(b, "\n") {
		inA, inB := map[string]bool{}, map[string]bool{}
		for _, l := range a {
			inA[l] = true
		}
		for _, l := range b {
			inB[l] = true
		}
		var extra, missing []string
		for _, l := range a {
			if !inB[l] {
				extra = append(extra, l)
			}
		}
		for _, l := range b {
			if !inA[l] {
				missing = append(missing, l)
			}
		}
		if len(extra) > 4 {
			extra = extra[:4]
		}
		if len(missing) > 4 {
			missing = missing[:4]
		}
		r.fail("%s: the database differs from one built freshly from the same state: extra %v, missing %v", why, extra, missing)
	}
	_ = r.w.db.View(func(tx *bbolt.Tx) error {
		for _, id := range universe {
			if _, note := r.m.notes[id]; r.m.people[id] == nil && !r.m.teams[id] && !note {
				if err := ValidateDeleted(tx, id); err != nil {
					r.fail("%s: id %s is not alive but: %v", why, id, err)
				}
			}
		}
		return nil
	})
}

// hbDeepBasePath: the same indexes under a base path of three elements (the histories use one element). Index bucket
// paths are derived from the store's base path; with a longer one, two indexes of a store must still get buckets of
// their own (a derived path must not share its backing array with the next one).
func hbDeepBasePath(t *testing.T) {
	f, err := os.CreateTemp("", "verif-bounded-hb-deep")
	if err != nil {
		t.Fatal(err)
	}
	_ = f.Close()
	defer os.Remove(f.Name())
	db, err := bbolt.Open(f.Name(), 0600, &bbolt.Options{NoSync: true})
	if err != nil {
		t.Fatal(err)
	}
	defer db.Close()
	people := &hbPeopleStore{NewBaseStore(StoreDefinition[*hbPerson]{EntityType: "hbpeople", EntityStrategy: hbPersonStrategy{},
		EntityNotFoundF: func(id string) error { return NewNotFoundError("hbperson", "id", id) }, BasePath: []string{"d1", "d2", "d3"}})}
	people.InitImpl(people)
	people.AddIdSymbol("id", ast.NodeTypeString)
	idxName := people.AddUniqueIndex(people.AddSymbol("name", ast.NodeTypeString))
	idxNick := people.AddNullableUniqueIndex(people.AddSymbol("nick", ast.NodeTypeString))
	idxTags := people.AddSetIndex(people.AddSetSymbol("tags", ast.NodeTypeString))
	fail := func(format string, args ...interface{}) {
		fmt.Printf("BOUNDED-FAIL deep base path: %s\n", fmt.Sprintf(format, args...))
	}
	err = db.Update(func(tx *bbolt.Tx) error {
		ctx := NewTxMutateContext(context.Background(), tx)
		people.InitializeIndexes(tx, &errorz.ErrorHolderImpl{})
		if err := people.Create(ctx, &hbPerson{Id: "e1", Name: "n1", Nick: hbP("k1"), Tags: []string{"t1", "t2"}}); err != nil {
			fail("create e1: %v", err)
			return nil
		}
		// a value of one index is not a value of another
		if id := idxName.Read(tx, []byte("n1")); string(id) != "e1" {
			fail("name index: n1 -> %q, want e1", string(id))
		}
		for _, v := range []string{"k1", "t1", "t2"} {
			if id := idxName.Read(tx, []byte(v)); id != nil {
				fail("name index holds %q (a value of another index) -> %q", v, string(id))
			}
		}
		if id := idxNick.Read(tx, []byte("k1")); string(id) != "e1" {
			fail("nick index: k1 -> %q, want e1", string(id))
		}
		for _, v := range []string{"n1", "t1"} {
			if id := idxNick.Read(tx, []byte(v)); id != nil {
				fail("nick index holds %q (a value of another index) -> %q", v, string(id))
			}
		}
		var listed []string
		idxTags.Read(tx, []byte("t1"), func(val []byte) { listed = append(listed, string(val)) })
		if len(listed) != 1 || listed[0] != "e1" {
			fail("tags index: t1 lists %v, want [e1]", listed)
		}
		// a second entity whose name equals the first one's tag and nick values is no duplicate
		if err := people.Create(ctx, &hbPerson{Id: "e2", Name: "t1", Nick: hbP("n1"), Tags: []string{"k1"}}); err != nil {
			fail("create e2 (name t1, nick n1, tag k1 - all distinct within their own index): %v", err)
		}
		return nil
	})
	if err != nil {
		fail("transaction: %v", err)
	}
}

func TestVerifBoundedHistories(t *testing.T) {
	hbDeepBasePath(t)
	seed, _ := strconv.Atoi(os.Getenv("VERIF_SEED"))
	histories, depth := 120, 30
	if os.Getenv("VERIF_BOUNDED_LEVEL") == "thorough" {
		histories, depth = 1500, 45
	}
	if n, err := strconv.Atoi(os.Getenv("VERIF_BOUNDED_HISTORIES")); err == nil && n > 0 {
		histories = n
	}
	// p1 is a prefix of p10; the last id contains quotes, a backslash and filter keywords
	personIds := []string{"p1", "p2", "p10", "q\" or true or id != \"\\"}
	noteIds := []string{"n1", "n2", "n3"}
	teamIds := []string{"t1", "t2"}
	names := []string{"ann", "bob", "an", "cy", "di"}
	nicks := []*string{nil, hbP("k1"), hbP("k2"), hbP("k3"), hbP("k"), nil}
	tagSets := [][]string{{}, {"x"}, {"y"}, {"x", "y"}, {"x", "xy"}, {"x", "z"}, {"y", "z"}}
	badges := []string{"b1", "b2", "b3"}
	universe := append(append(append([]string{}, personIds...), teamIds...), noteIds...)
	fails, ops, accepted, rejected := 0, 0, 0, 0
	states := map[string]bool{}
	opAcc, opRej := map[int]int{}, map[int]int{}
	for h := 0; h < histories; h++ {
		rng := rand.New(rand.NewSource(int64(seed)*1000003 + int64(h)))
		r := &hbRun{t: t, w: newHbWorld(t), m: newHbModel(), fails: &fails}
		pick := func(s []string) string { return s[rng.Intn(len(s))] }
		// pickPerson / pickTeam: mostly an id for which the operation can succeed (alive or not alive as asked)
		pickPerson := func(alive bool) string {
			if rng.Intn(5) != 0 {
				var c []string
				for _, id := range personIds {
					if (r.m.people[id] != nil) == alive {
						c = append(c, id)
					}
				}
				if len(c) > 0 {
					return pick(c)
				}
			}
			return pick(personIds)
		}
		pickTeam := func(alive bool) string {
			if rng.Intn(5) != 0 {
				var c []string
				for _, id := range teamIds {
					if r.m.teams[id] == alive {
						c = append(c, id)
					}
				}
				if len(c) > 0 {
					return pick(c)
				}
			}
			return pick(teamIds)
		}
		// freeName / freeNick: mostly a value nobody else holds (so that the operation is usually accepted)
		freeName := func(self string) string {
			for try := 0; try < 6; try++ {
				n := pick(names)
				if rng.Intn(4) == 0 || !r.m.conflict(self, n, nil, nil) {
					return n
				}
			}
			return pick(names)
		}
		freeNick := func(self string) *string {
			for try := 0; try < 6; try++ {
				k := nicks[rng.Intn(len(nicks))]
				if rng.Intn(4) == 0 || k == nil || !r.m.conflict(self, "\x00none", k, nil) {
					return k
				}
			}
			return nil
		}
		teamOpt := func() *string {
			if rng.Intn(3) == 0 {
				return nil
			}
			return hbP(pickTeam(true))
		}
		for step := 0; step < depth && fails == 0; step++ {
			m := r.m
			ops++
			ok := false
			deleted := false
			// deletes are drawn less often than the rest so that histories build up state
			op := rng.Intn(21)
			if op >= 18 {
				op = 4 + rng.Intn(3)
			}
			if prologue := []int{0, 0, 2, 3, 2}; step < len(prologue) {
				op = prologue[step] // every history starts by populating both stores
			}
			switch op {
			case 0: // create team
				id := pickTeam(false)
				ok = r.expect("createTeam "+id, m.teams[id], r.tx(func(ctx MutateContext) error { return r.w.teams.Create(ctx, &hbTeam{Id: id}) }))
				if ok {
					m.teams[id] = true
				}
			case 1: // delete team: refused while a person references it
				id := pickTeam(true)
				ref := false
				for _, p := range m.people {
					if p.team != nil && *p.team == id {
						ref = true
					}
				}
				ok = r.expect("deleteTeam "+id, !m.teams[id] || ref, r.tx(func(ctx MutateContext) error { return r.w.teams.DeleteById(ctx, id) }))
				if ok {
					delete(m.teams, id)
					for k := range m.links {
						if k[1] == id {
							delete(m.links, k)
						}
					}
					for k := range m.rc {
						if k[1] == id {
							delete(m.rc, k)
						}
					}
					deleted = true
				}
			case 2, 3: // create person / vip
				id := pickPerson(false)
				name, nick, tags, team := freeName(id), freeNick(id), hbNorm(tagSets[rng.Intn(len(tagSets))]), teamOpt()
				vip := op == 3
				if vip && m.people[id] != nil && !m.people[id].vip {
					// creating through the child store over an entity that exists only in the parent store: accepted by the
					// code and known to leave stale parent index entries (known_findings.txt, C03/C15); not exercised here
					continue
				}
				badge := pick(badges)
				var bp *string
				if vip {
					bp = &badge
				}
				wantErr := m.people[id] != nil || m.conflict(id, name, nick, bp) || (team != nil && !m.teams[*team])
				base := hbPerson{Id: id, Name: name, Nick: nick, Tags: append([]string{}, tags...), Team: team}
				desc := fmt.Sprintf("create(vip=%v) %s name=%s nick=%s tags=%v team=%s badge=%s", vip, id, name, hbStrP(nick), tags, hbStrP(team), badge)
				ok = r.expect(desc, wantErr, r.tx(func(ctx MutateContext) error {
					if vip {
						return r.w.vips.Create(ctx, &hbVip{hbPerson: base, Level: 7, Badge: badge})
					}
					return r.w.people.Create(ctx, &base)
				}))
				if ok {
					m.people[id] = &hbMP{name: name, nick: nick, tags: tags, team: team, vip: vip, level: 7, badge: badge}
					if !vip {
						m.people[id].badge = ""
					}
				}
			case 4, 5, 6: // update through the parent store: full (4), patch of some fields (5, 6)
				id := pickPerson(true)
				name, nick, tags, team := freeName(id), freeNick(id), hbNorm(tagSets[rng.Intn(len(tagSets))]), teamOpt()
				var checker hbChecker
				if op != 4 {
					checker = hbChecker{}
					for _, f := range []string{"name", "nick", "tags", "team"} {
						if rng.Intn(2) == 0 {
							checker[f] = true
						}
					}
				}
				cur := m.people[id]
				nn, nk, nt, ntm := name, nick, tags, team
				if cur != nil && checker != nil {
					if !checker["name"] {
						nn = cur.name
					}
					if !checker["nick"] {
						nk = cur.nick
					}
					if !checker["tags"] {
						nt = cur.tags
					}
					if !checker["team"] {
						ntm = cur.team
					}
				}
				wantErr := cur == nil || m.conflict(id, nn, nk, nil) || (ntm != nil && !m.teams[*ntm])
				if os.Getenv("HB_DEBUG") != "" {
					fmt.Printf("HB-DBG update %s: cur=%v conflict=%v teamMissing=%v people=%d\n", id, cur != nil, cur != nil && m.conflict(id, nn, nk, nil), ntm != nil && !m.teams[*ntm], len(m.people))
				}
				desc := fmt.Sprintf("update(parent, fields=%v) %s name=%s nick=%s tags=%v team=%s", checker, id, name, hbStrP(nick), tags, hbStrP(team))
				ok = r.expect(desc, wantErr, r.tx(func(ctx MutateContext) error {
					e := &hbPerson{Id: id, Name: name, Nick: nick, Tags: append([]string{}, tags...), Team: team}
					if checker == nil {
						return r.w.people.Update(ctx, e, nil)
					}
					return r.w.people.Update(ctx, e, checker)
				}))
				if ok {
					cur.name, cur.nick, cur.tags, cur.team = nn, nk, nt, ntm
				}
			case 7: // update through the child store
				id := pickPerson(true)
				name, tags, badge := freeName(id), hbNorm(tagSets[rng.Intn(len(tagSets))]), pick(badges)
				cur := m.people[id]
				wantErr := cur == nil || !cur.vip || m.conflict(id, name, cur.nick, &badge)
				desc := fmt.Sprintf("update(child) %s name=%s tags=%v badge=%s", id, name, tags, badge)
				ok = r.expect(desc, wantErr, r.tx(func(ctx MutateContext) error {
					v := &hbVip{hbPerson: hbPerson{Id: id, Name: name, Tags: append([]string{}, tags...)}, Level: 9, Badge: badge}
					if cur != nil {
						v.Nick, v.Team = cur.nick, cur.team
					}
					return r.w.vips.Update(ctx, v, nil)
				}))
				if ok {
					cur.name, cur.tags, cur.level, cur.badge = name, tags, 9, badge
				}
			case 8, 9: // delete through the parent (8) or the child (9) store
				id := pickPerson(true)
				cur := m.people[id]
				viaChild := op == 9
				wantErr := cur == nil || (viaChild && !cur.vip)
				if viaChild && cur != nil && !cur.vip {
					// a plain person is not an entity of the child store; the child store delegates to the parent, which
					// deletes it - what the property says about that case is open, so it is not exercised
					continue
				}
				ok = r.expect(fmt.Sprintf("delete(viaChild=%v) %s", viaChild, id), wantErr, r.tx(func(ctx MutateContext) error {
					if viaChild {
						return r.w.vips.DeleteById(ctx, id)
					}
					return r.w.people.DeleteById(ctx, id)
				}))
				if ok {
					delete(m.people, id)
					for n, owner := range m.notes {
						if owner == id {
							delete(m.notes, n) // cascade
						}
					}
					for k := range m.links {
						if k[0] == id {
							delete(m.links, k)
						}
					}
					for k := range m.rc {
						if k[0] == id {
							delete(m.rc, k)
						}
					}
					deleted = true
				}
			case 10, 11, 12: // links: add (10), remove (11), set (12)
				id := pickPerson(true)
				var ts []string
				for i := rng.Intn(3); i >= 0; i-- {
					ts = append(ts, pickTeam(true))
				}
				missing := m.people[id] == nil
				for _, x := range ts {
					if !m.teams[x] && op != 11 {
						missing = true
					}
				}
				desc := fmt.Sprintf("links(op=%d) %s %v", op, id, ts)
				ok = r.expect(desc, missing, r.w.db.Update(func(tx *bbolt.Tx) error {
					switch op {
					case 10:
						return r.w.follows.AddLinks(tx, id, ts...)
					case 11:
						return r.w.follows.RemoveLinks(tx, id, ts...)
					}
					return r.w.follows.SetLinks(tx, id, append([]string{}, ts...))
				}))
				if ok {
					if op == 12 {
						for k := range m.links {
							if k[0] == id {
								delete(m.links, k)
							}
						}
					}
					for _, x := range ts {
						if op == 11 {
							delete(m.links, [2]string{id, x})
						} else {
							m.links[[2]string{id, x}] = true
						}
					}
				}
			case 16: // create a note owned by a person (fk constraint: the owner must exist)
				id, owner := pick(noteIds), pickPerson(true)
				_, exists := m.notes[id]
				ok = r.expect(fmt.Sprintf("createNote %s owner=%q", id, owner), exists || m.people[owner] == nil, r.tx(func(ctx MutateContext) error {
					return r.w.notes.Create(ctx, &hbNote{Id: id, Owner: owner})
				}))
				if ok {
					m.notes[id] = owner
				}
			case 17: // delete a note
				id := pick(noteIds)
				_, exists := m.notes[id]
				ok = r.expect("deleteNote "+id, !exists, r.tx(func(ctx MutateContext) error { return r.w.notes.DeleteById(ctx, id) }))
				if ok {
					delete(m.notes, id)
					deleted = true
				}
			default: // reference counts: increment (13), decrement (14), set (15)
				id, x := pickPerson(true), pickTeam(true)
				n := rng.Intn(3)
				key := [2]string{id, x}
				missing := m.people[id] == nil || (!m.teams[x] && (op == 13 || (op == 15 && n > 0)))
				if op == 15 && n == 0 && m.people[id] != nil && !m.teams[x] {
					continue // setting a count of zero towards a missing entity: outcome not specified, not exercised
				}
				if op == 14 && m.people[id] != nil && !m.teams[x] {
					continue
				}
				desc := fmt.Sprintf("count(op=%d n=%d) %s %s", op, n, id, x)
				ok = r.expect(desc, missing, r.w.db.Update(func(tx *bbolt.Tx) error {
					var err error
					switch op {
					case 13:
						_, err = r.w.visits.IncrementLinkCount(tx, []byte(id), []byte(x))
					case 14:
						_, err = r.w.visits.DecrementLinkCount(tx, []byte(id), []byte(x))
					default:
						_, _, err = r.w.visits.SetLinkCount(tx, []byte(id), []byte(x), n)
					}
					return err
				}))
				if ok {
					switch op {
					case 13:
						m.rc[key]++
					case 14:
						if m.rc[key] > 0 {
							m.rc[key]--
						}
					default:
						m.rc[key] = int32(n)
					}
					if m.rc[key] == 0 {
						delete(m.rc, key)
					}
				}
			}
			if ok {
				accepted++
				opAcc[op]++
			} else {
				rejected++
				opRej[op]++
			}
			r.check()
			if deleted {
				r.compareWithFresh("after a delete", universe)
			}
			states[strings.Join(hbDump(r.w.db), "\n")] = true
		}
		if fails == 0 {
			r.compareWithFresh("at the end of the history", universe)
		}
		r.w.close()
		if fails > 0 {
			break
		}
	}
	fmt.Printf("BOUNDED-CASES %d\n", ops)
	fmt.Printf("HB-OPS accepted=%v rejected=%v\n", opAcc, opRej)
	fmt.Printf("HB-STATS histories=%d depth=%d operations=%d accepted=%d rejected=%d distinct_database_states=%d seed=%d\n", histories, depth, ops, accepted, rejected, len(states), seed)
	if fails > 0 {
		t.Fatalf("%d discrepancies", fails)
	}
}

func hbP(s string) *string { return &s }

// ---- C09: the integrity checker on corrupted databases ------------------------------------------------------------
//
// Bounded stand-in for the clauses of C09 that are not claimed as proved (a consistent database yields no report; a
// corrupted one yields a report; one fix run repairs every repairable inconsistency, so that an immediate re-check is
// clean and the indexes again mirror the entities). A consistent database is built from a random model state, a random
// subset of corruptions of the supported, repairable classes is applied directly to the buckets, and then: the check
// run must report and must not write, one fix run over all stores must leave a database on which a check run reports
// nothing and which is, key by key, the database built freshly from the same entities.

func hbRandomModel(rng *rand.Rand, personIds, teamIds, noteIds []string) *hbModel {
	m := newHbModel()
	for _, t := range teamIds {
		if rng.Intn(4) != 0 {
			m.teams[t] = true
		}
	}
	names := []string{"ann", "bob", "an", "cy", "di"}
	nicks := []*string{nil, hbP("k1"), hbP("k2"), hbP("k3"), nil}
	tagSets := [][]string{{}, {"x"}, {"y"}, {"x", "y"}, {"x", "xy"}, {"y", "z"}}
	badges := []string{"b1", "b2", "b3"}
	for i, id := range personIds {
		if rng.Intn(4) == 0 {
			continue
		}
		p := &hbMP{name: names[i%len(names)], tags: hbNorm(tagSets[rng.Intn(len(tagSets))])}
		if k := nicks[rng.Intn(len(nicks))]; k != nil && !m.conflict(id, "\x00", k, nil) {
			p.nick = k
		}
		if ts := hbSorted(m.teams); len(ts) > 0 && rng.Intn(3) != 0 {
			p.team = hbP(ts[rng.Intn(len(ts))])
		}
		if rng.Intn(3) == 0 {
			p.vip, p.level, p.badge = true, 7, badges[i%len(badges)]
		}
		m.people[id] = p
	}
	for id := range m.people {
		for t := range m.teams {
			if rng.Intn(3) == 0 {
				m.links[[2]string{id, t}] = true
			}
			if rng.Intn(4) == 0 {
				m.rc[[2]string{id, t}] = int32(1 + rng.Intn(2))
			}
		}
	}
	alive := func() []string {
		var s []string
		for id := range m.people {
			s = append(s, id)
		}
		sort.Strings(s)
		return s
	}()
	for _, n := range noteIds {
		if len(alive) > 0 && rng.Intn(2) == 0 {
			m.notes[n] = alive[rng.Intn(len(alive))]
		}
	}
	return m
}

func hbCheckAll(w *hbWorld, fix bool) (reports []string, err error) {
	err = w.db.Update(func(tx *bbolt.Tx) error {
		ctx := NewTxMutateContext(nil, tx)
		sink := func(e error, fixed bool) { reports = append(reports, fmt.Sprintf("%v (fixed=%v)", e, fixed)) }
		for _, s := range []interface {
			CheckIntegrity(ctx MutateContext, fix bool, errorSink func(err error, fixed bool)) error
		}{w.people, w.vips, w.teams, w.notes} {
			if e := s.CheckIntegrity(ctx, fix, sink); e != nil {
				return e
			}
		}
		return nil
	})
	return
}

func TestVerifBoundedIntegrity(t *testing.T) {
	seed, _ := strconv.Atoi(os.Getenv("VERIF_SEED"))
	cases := 150
	if os.Getenv("VERIF_BOUNDED_LEVEL") == "thorough" {
		cases = 2500
	}
	personIds := []string{"p1", "p2", "p10"}
	teamIds := []string{"t1", "t2"}
	noteIds := []string{"n1", "n2"}
	fails, applied := 0, 0
	fail := func(format string, args ...interface{}) {
		fails++
		if fails <= 12 {
			fmt.Printf("BOUNDED-FAIL %s\n", fmt.Sprintf(format, args...))
		}
	}
	tid := func(s string) []byte { return PrependFieldType(TypeString, []byte(s)) }
	for c := 0; c < cases && fails == 0; c++ {
		rng := rand.New(rand.NewSource(int64(seed)*7919 + int64(c)))
		r := &hbRun{t: t, m: hbRandomModel(rng, personIds, teamIds, noteIds), fails: &fails}
		w := r.fresh()
		r.w = w
		m := r.m
		if reports, err := hbCheckAll(w, false); err != nil || len(reports) > 0 {
			fail("case %d: a consistent database is reported as inconsistent: %v (err %v)", c, reports, err)
			w.close()
			break
		}
		var people, teams []string
		for id := range m.people {
			people = append(people, id)
		}
		sort.Strings(people)
		teams = hbSorted(m.teams)
		var done []string
		err := w.db.Update(func(tx *bbolt.Tx) error {
			n := 1 + rng.Intn(3)
			for tries := 0; len(done) < n && tries < 40; tries++ {
				if len(people) == 0 {
					break
				}
				id := people[rng.Intn(len(people))]
				p := m.people[id]
				switch rng.Intn(11) {
				case 0: // unique index: entry missing
					if b := Path(tx, "hb", "indexes", "hbpeople", "name"); b != nil && b.Delete([]byte(p.name)) == nil {
						done = append(done, "name index entry of "+id+" deleted")
					}
				case 1: // unique index: entry for a value nobody holds
					if b := Path(tx, "hb", "indexes", "hbpeople", "name"); b != nil && b.Put([]byte("zzz"), []byte(id)) == nil {
						done = append(done, "stale name index entry zzz -> "+id)
					}
				case 2: // unique index: entry points to another entity
					if len(people) > 1 {
						other := people[(rng.Intn(len(people)-1)+1+sort.SearchStrings(people, id))%len(people)]
						if b := Path(tx, "hb", "indexes", "hbpeople", "name"); other != id && b != nil && b.Put([]byte(p.name), []byte(other)) == nil {
							done = append(done, "name index entry of "+id+" points to "+other)
						}
					}
				case 3: // set index: entity missing under one of its values
					if len(p.tags) > 0 {
						tg := p.tags[rng.Intn(len(p.tags))]
						if b := Path(tx, "hb", "indexes", "hbpeople", "tags", tg); b != nil && b.Delete(tid(id)) == nil {
							done = append(done, "set index entry "+tg+"/"+id+" deleted")
						}
					}
				case 4: // set index: entity listed under a value it does not have
					has := false
					for _, tg := range p.tags {
						if tg == "w" {
							has = true
						}
					}
					if !has {
						if b := GetOrCreatePath(tx, "hb", "indexes", "hbpeople", "tags", "w"); !b.HasError() && b.Put(tid(id), nil) == nil {
							done = append(done, "stale set index entry w/"+id)
						}
					}
				case 5: // set index: a value key without entries
					if b := GetOrCreatePath(tx, "hb", "indexes", "hbpeople", "tags", "v"); !b.HasError() {
						done = append(done, "empty set index key v")
					}
				case 6: // set index: a whole value key missing
					if len(p.tags) > 0 {
						tg := p.tags[rng.Intn(len(p.tags))]
						if b := Path(tx, "hb", "indexes", "hbpeople", "tags"); b != nil && b.DeleteBucket([]byte(tg)) == nil {
							done = append(done, "set index key "+tg+" deleted")
						}
					}
				case 7: // fk: back-reference missing
					if p.team != nil {
						if b := Path(tx, "hb", "hbteams", *p.team, "members"); b != nil && b.Delete(tid(id)) == nil {
							done = append(done, "back-reference "+*p.team+"/"+id+" deleted")
						}
					}
				case 8: // fk: back-reference of an entity that references another team (or none)
					if len(teams) > 0 {
						tm := teams[rng.Intn(len(teams))]
						if p.team == nil || *p.team != tm {
							if b := GetOrCreatePath(tx, "hb", "hbteams", tm, "members"); !b.HasError() && b.Put(tid(id), nil) == nil {
								done = append(done, "stale back-reference "+tm+"/"+id)
							}
						}
					}
				case 9: // link: one side missing
					for k := range m.links {
						if k[0] == id {
							if b := Path(tx, "hb", "hbteams", k[1], "followed"); b != nil && b.Delete(tid(id)) == nil {
								done = append(done, "link "+id+"->"+k[1]+" lost its far side")
							}
							break
						}
					}
				case 10: // link: only one side present
					if len(teams) > 0 {
						tm := teams[rng.Intn(len(teams))]
						if !m.links[[2]string{id, tm}] {
							if b := GetOrCreatePath(tx, "hb", "hbpeople", id, "follows"); !b.HasError() && b.Put(tid(tm), nil) == nil {
								done = append(done, "one-sided link "+id+"->"+tm)
								m.links[[2]string{id, tm}] = true // the repair completes the link (the near side is the evidence)
							}
						}
					}
				}
			}
			return nil
		})
		if err != nil {
			fail("case %d: corrupting failed: %v", c, err)
		}
		if len(done) == 0 {
			w.close()
			continue
		}
		applied++
		before := strings.Join(hbDump(w.db), "\n")
		reports, err := hbCheckAll(w, false)
		if err != nil || len(reports) == 0 {
			fail("case %d: corruptions %v are not reported in check mode (err %v)", c, done, err)
		}
		if strings.Join(hbDump(w.db), "\n") != before {
			fail("case %d: the check run changed the database (%v)", c, done)
		}
		if _, err := hbCheckAll(w, true); err != nil {
			fail("case %d: the fix run failed: %v (%v)", c, err, done)
		}
		if again, err := hbCheckAll(w, false); err != nil || len(again) > 0 {
			fail("case %d: after one fix run of %v the re-check still reports %v (err %v)", c, done, again, err)
		}
		r.trace = done
		r.compareWithFresh(fmt.Sprintf("case %d: after one fix run", c), nil)
		r.check()
		w.close()
	}
	fmt.Printf("BOUNDED-CASES %d\n", applied)
	fmt.Printf("HB-STATS integrity cases=%d corrupted=%d seed=%d\n", cases, applied, seed)
	if fails > 0 {
		t.Fatalf("%d discrepancies", fails)
	}
}
