package boltz

// Bounded stand-in for C05 (SetLinks): exhaustive over a small universe on the real code and a real bbolt file.
// Injected with `go test -overlay` by `govc check C05`; never written into /repo. Prints one BOUNDED-FAIL line per
// failing case and a BOUNDED-CASES line at the end.

import (
	"errors"
	"fmt"
	"os"
	"sort"
	"strings"
	"testing"

	"github.com/openziti/storage/ast"
	"go.etcd.io/bbolt"
)

type vbNode struct {
	Id   string
	kind string
}

func (e *vbNode) GetId() string         { return e.Id }
func (e *vbNode) SetId(id string)       { e.Id = id }
func (e *vbNode) GetEntityType() string { return e.kind }

type vbStrategy struct{ kind string }

func (s vbStrategy) NewEntity() *vbNode                     { return &vbNode{kind: s.kind} }
func (s vbStrategy) FillEntity(*vbNode, *TypedBucket)       {}
func (s vbStrategy) PersistEntity(*vbNode, *PersistContext) {}

type vbStore struct {
	*BaseStore[*vbNode]
	kind string
}

func (s *vbStore) NewStoreEntity() *vbNode { return &vbNode{kind: s.kind} }

func vbNewStore(kind string) *vbStore {
	def := StoreDefinition[*vbNode]{
		EntityType:      kind,
		EntityStrategy:  vbStrategy{kind: kind},
		EntityNotFoundF: func(id string) error { return NewNotFoundError(kind, "id", id) },
		BasePath:        []string{"vb"},
	}
	s := &vbStore{BaseStore: NewBaseStore(def), kind: kind}
	s.InitImpl(s)
	return s
}

var errVbRollback = errors.New("rollback")

func TestVerifBoundedSetLinks(t *testing.T) {
	f, err := os.CreateTemp("", "verif-bounded-c05")
	if err != nil {
		t.Fatal(err)
	}
	_ = f.Close()
	defer os.Remove(f.Name())
	db, err := bbolt.Open(f.Name(), 0600, bbolt.DefaultOptions)
	if err != nil {
		t.Fatal(err)
	}
	defer db.Close()

	left := vbNewStore("lefts")
	right := vbNewStore("rights")
	left.AddIdSymbol("id", ast.NodeTypeString)
	right.AddIdSymbol("id", ast.NodeTypeString)
	symR := left.AddFkSetSymbol("rights", right)
	symL := right.AddFkSetSymbol("lefts", left)
	lc := left.AddLinkCollection(symR, symL)
	rc := right.AddLinkCollection(symL, symR)

	// keys chosen so that byte order, prefixes and the empty-looking cases are exercised
	universe := []string{"a", "ab", "b", "c"}
	maxLen := 4
	if os.Getenv("VERIF_BOUNDED_LEVEL") == "thorough" {
		// the thorough tier adds a fifth target (a key that sorts between existing ones) and one more list position
		universe = []string{"a", "ab", "b", "ba", "c"}
		maxLen = 5
	}
	const missing = "zz"
	lefts := []string{"L1", "L2"}

	err = db.Update(func(tx *bbolt.Tx) error {
		ctx := NewTxMutateContext(nil, tx)
		for _, id := range lefts {
			if err := left.Create(ctx, &vbNode{Id: id, kind: "lefts"}); err != nil {
				return err
			}
		}
		for _, id := range universe {
			if err := right.Create(ctx, &vbNode{Id: id, kind: "rights"}); err != nil {
				return err
			}
		}
		return nil
	})
	if err != nil {
		t.Fatalf("setup failed: %v", err)
	}

	// every list over universe + one missing id, length <= 4, any order, duplicates allowed
	alphabet := append(append([]string{}, universe...), missing)
	var requests [][]string
	var gen func(prefix []string, n int)
	gen = func(prefix []string, n int) {
		requests = append(requests, append([]string{}, prefix...))
		if n == 0 {
			return
		}
		for _, a := range alphabet {
			gen(append(prefix, a), n-1)
		}
	}
	gen(nil, maxLen)

	cases, fails := 0, 0
	fail := func(format string, args ...interface{}) {
		fails++
		if fails <= 20 {
			fmt.Printf("BOUNDED-FAIL %s\n", fmt.Sprintf(format, args...))
		}
	}
	for mask := 0; mask < 1<<len(universe); mask++ {
		var cur []string
		for i, u := range universe {
			if mask&(1<<i) != 0 {
				cur = append(cur, u)
			}
		}
		for _, req := range requests {
			if only := os.Getenv("VERIF_BOUNDED_ONLY"); only != "" && !strings.HasPrefix(only, fmt.Sprintf("current=%v requested=%v:", cur, req)) {
				continue
			}
			cases++
			wantErr := false
			want := map[string]bool{}
			for _, r := range req {
				if r == missing {
					wantErr = true
				}
				want[r] = true
			}
			_ = db.Update(func(tx *bbolt.Tx) error {
				// current state: L1 -> cur (written with AddLinks), L2 -> {"b"} as a bystander
				if err := lc.AddLinks(tx, "L1", cur...); err != nil {
					fail("setup AddLinks(%v): %v", cur, err)
					return errVbRollback
				}
				if err := lc.AddLinks(tx, "L2", "b"); err != nil {
					fail("setup AddLinks bystander: %v", err)
					return errVbRollback
				}
				arg := append([]string{}, req...)
				err := lc.SetLinks(tx, "L1", arg)
				desc := fmt.Sprintf("current=%v requested=%v", cur, req)
				if wantErr {
					if err == nil {
						fail("%s: linking to a missing entity succeeded", desc)
					}
					return errVbRollback
				}
				if err != nil {
					fail("%s: unexpected error %v", desc, err)
					return errVbRollback
				}
				var wantList []string
				for k := range want {
					wantList = append(wantList, k)
				}
				sort.Strings(wantList)
				got := lc.GetLinks(tx, "L1")
				if strings.Join(got, ",") != strings.Join(wantList, ",") {
					fail("%s: L1 links = %v, want %v", desc, got, wantList)
				}
				for _, u := range universe {
					back := rc.GetLinks(tx, u)
					hasL1, hasL2 := false, false
					for _, b := range back {
						if b == "L1" {
							hasL1 = true
						}
						if b == "L2" {
							hasL2 = true
						}
					}
					if hasL1 != want[u] {
						fail("%s: right %q lists L1 = %v, want %v", desc, u, hasL1, want[u])
					}
					if hasL2 != (u == "b") {
						fail("%s: bystander link L2<->%q changed (listed=%v)", desc, u, hasL2)
					}
					if lc.IsLinked(tx, []byte("L1"), []byte(u)) != want[u] || rc.IsLinked(tx, []byte(u), []byte("L1")) != want[u] {
						fail("%s: IsLinked disagrees for %q", desc, u)
					}
				}
				if l2 := lc.GetLinks(tx, "L2"); strings.Join(l2, ",") != "b" {
					fail("%s: bystander L2 links = %v", desc, l2)
				}
				return errVbRollback
			})
		}
	}
	fmt.Printf("BOUNDED-CASES %d\n", cases)
	if fails > 0 {
		t.Fatalf("%d of %d cases failed", fails, cases)
	}
}
