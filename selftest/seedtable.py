#!/usr/bin/env python3
"""prints markdown rows (seed, what it changes, caught by) for the seeds whose number is above the given first-round counts"""
import json, glob, os, re, sys
first = {'C01':5,'C02':3,'C03':5,'C04':5,'C05':6,'C06':5,'C07':3,'C08':4,'C09':4,'C10':4,'C11':3,'C13':4,'C14':4,'C15':5,'C16':3,'C18':3,'C19':3,'C20':3}
def key(d):
    n=os.path.basename(d); p,i=n.split('-'); return (p,int(i))
for d in sorted(glob.glob('/verif/seeded/*-*'), key=key):
    p,i=key(d)
    if i<=first.get(p,0): continue
    m=json.load(open(d+'/meta.json'))
    diff=open(d+'/patch.diff').read()
    hunk=re.findall(r'^@@.*@@ (.*)$', diff, re.M)
    fn=''
    if hunk:
        mm=re.search(r'func (\([^)]*\) )?([A-Za-z0-9_]+)', hunk[0])
        if mm:
            recv=re.sub(r'^\(\w+ \*?', '', mm.group(1) or '').rstrip(') ').split('[')[0]
            fn=(recv+'.' if recv else '')+mm.group(2)
    notes=[l.strip() for l in open(d+'/notes.md') if l.strip()] if os.path.exists(d+'/notes.md') else []
    title=''
    for l in notes:
        if l.startswith('#'):
            title=re.sub(r'^#+\s*(Change\s*\d+\s*[-:–—]*\s*)?','',l).strip(); break
    if not title and notes: title=notes[0][:90]
    obs=m.get('failed_obligations',[])
    def short(o):
        if o.startswith('VIOLATION'):
            mm=re.search(r'(bounded:\w+)', o); return (mm.group(1) if mm else 'other')+' (failing case with input)'
        o=re.sub(r'^[a-z]+\.', '', o)
        return '`'+o+'`'
    caught=', '.join(dict.fromkeys(short(o) for o in obs[:2])) if m.get('detected_by_quick_check') else '**missed**'
    print('| %s-%d %s | %s |' % (p,i,title[:110].replace('|','/'),caught))
