#!/usr/bin/env python3
"""Runs every seeded change under /verif/seeded against the quick check of its property (patch applied to
/repo, then reverted) and records in meta.json whether the check reports a violation, and which obligations."""
import json, os, subprocess, sys, re, glob
REPO=os.environ.get('SEED_REPO','/repo')  # a scratch worktree may be used instead (the checks then get VERIF_REPO)
ENV=dict(os.environ, VERIF_REPO=REPO) if REPO!='/repo' else dict(os.environ)
only = sys.argv[1:] 
rows=[]
for d in sorted(glob.glob('/verif/seeded/*-*')):
    name=os.path.basename(d); prop=name.split('-')[0]
    if only and prop not in only and name not in only: continue
    patch=d+'/patch.diff'
    if subprocess.call(['git','-C',REPO,'apply','--check',patch])!=0:
        rows.append((name,'PATCH-DOES-NOT-APPLY',[])); continue
    subprocess.check_call(['git','-C',REPO,'apply',patch])
    try:
        p=subprocess.run(['/verif/bin/govc','check',prop,'--tier','quick'],capture_output=True,text=True,env=ENV)
    finally:
        subprocess.check_call(['git','-C',REPO,'apply','-R',patch])
    obs=re.findall(r'^VIOLATION .*?obligation=(\S+)', p.stdout, re.M)
    other=[l for l in p.stdout.splitlines() if l.startswith('VIOLATION') and 'obligation=' not in l]
    detected = p.returncode==1 and (obs or other)
    meta_path=d+'/meta.json'
    meta=json.load(open(meta_path)) if os.path.exists(meta_path) else {}
    notes=open(d+'/notes.md').read() if os.path.exists(d+'/notes.md') else ''
    meta.update({
      'property': prop,
      'source': 'written by an independent sub-agent that saw only the property text and a scratch worktree of /repo',
      'confirmed': 'selftest/confirm_seed.sh: patch applied in a scratch worktree; full test suite passed; demo_test.go failed with the patch and passed without it',
      'needs_to_manifest': (re.search(r'(?is)(needs|manifest)[^\n]*\n(.{0,600})', notes).group(0)[:700] if re.search(r'(?is)(needs|manifest)', notes) else 'see notes.md'),
      'detected_by_quick_check': bool(detected),
      'failed_obligations': obs[:8] + other[:3],
      'ran': f'git -C /repo apply patch.diff; /verif/bin/govc check {prop} --tier quick; git -C /repo apply -R patch.diff',
    })
    json.dump(meta, open(meta_path,'w'), indent=1)
    rows.append((name, 'DETECTED' if detected else 'missed', obs[:3]))
for r in rows:
    print(r[0], r[1], *r[2])
