#!/bin/bash
# usage: import_seeds.sh <prop> <outdir> <count> : confirms change1..count of outdir as the next free seed numbers of prop
prop=$1; out=$2; cnt=$3
last=$(ls -d /verif/seeded/$prop-* 2>/dev/null | sed "s/.*$prop-//" | sort -n | tail -1); last=${last:-0}
tmp=$(mktemp -d /tmp/seedimp.XXXXXX)
for i in $(seq 1 $cnt); do
  n=$((last+i))
  cp $out/change$i.diff $tmp/change$n.diff; cp $out/demo${i}_test.go $tmp/demo${n}_test.go; cp $out/notes$i.md $tmp/notes$n.md 2>/dev/null
  /verif/selftest/confirm_seed.sh $prop $n $tmp 2>&1 | tail -2
done
rm -rf $tmp
