#!/bin/bash
# usage: seedrun.sh <prop> <patch.diff>   -- applies the patch to /repo, runs the quick check, reverts the patch (only)
prop=$1; patch=$2
cd /repo || exit 2
git apply --check "$patch" 2>/dev/null || { echo "PATCH DOES NOT APPLY: $patch"; exit 3; }
git apply "$patch"
/verif/bin/govc check "$prop" --tier quick > /tmp/seedrun.out 2>&1; rc=$?
git apply -R "$patch" || echo "REVERT FAILED"
grep -c "^VIOLATION" /tmp/seedrun.out | sed "s/^/violations: /"
grep "^VIOLATION" /tmp/seedrun.out | head -5 | cut -c1-260
tail -1 /tmp/seedrun.out | grep -v VIOLATION
echo "exit=$rc"
