#!/usr/bin/env python3
"""usage: mkseedprompt.py <prop> <count> [round]  -- writes /tmp/seed/prompt_<prop>.txt and creates the scratch worktree /tmp/seed/wt_<prop>
(the worktree has every zz_verif* file deleted, so the agent sees nothing of the verification machinery)"""
import json, sys, glob, os, subprocess, re
prop, cnt = sys.argv[1], int(sys.argv[2])
rnd = sys.argv[3] if len(sys.argv) > 3 else '3'
P = None
for l in open('/verif/properties.jsonl'):
    d = json.loads(l)
    if d['id'] == prop: P = d
wt = '/tmp/seed/wt_' + prop
out = '/tmp/seed/out%s_%s' % (rnd, prop)
subprocess.run('git -C /repo worktree prune; rm -rf %s; git -C /repo worktree add -q --detach %s HEAD && cd %s && find . -name "zz_verif*" -delete; mkdir -p %s' % (wt, wt, wt, out), shell=True, check=True)
tried = []
for s in sorted(glob.glob('/verif/seeded/%s-*' % prop), key=lambda x: int(x.rsplit('-', 1)[1])):
    diff = open(s + '/patch.diff').read()
    files = re.findall(r'^\+\+\+ b/(\S+)', diff, re.M)
    hunk = re.findall(r'^@@.*@@ (.*)$', diff, re.M)
    note = ''
    if os.path.exists(s + '/notes.md'):
        lines = [x.strip() for x in open(s + '/notes.md') if x.strip()]
        note = ' '.join(lines[:3])[:260]
    tried.append('(%d) %s [%s] %s' % (len(tried) + 1, ', '.join(files), '; '.join(h[:70] for h in hunk[:2]), note))
pkgs = sorted(set(f.split('/')[0] for f in P['anchors']['files']))
txt = f"""You are helping evaluate a verification tool. You have a scratch git worktree of the Go library openziti/storage at {wt} (Go entity/CRUD framework over bbolt with an ANTLR filter language: packages ast, boltz, objectz, zitiql). Work ONLY inside {wt} and write your outputs to {out}. Do not look at or touch /verif, /repo or other directories under /tmp/seed. The sandbox has no network: prefix every shell command with `export GOFLAGS=-mod=mod GOPROXY=off GOSUMDB=off GOTOOLCHAIN=local;`.

Property ({prop}) "{P['title']}": {P['statement']} ({P['quantifier']['text']}.) Relevant code: {', '.join(P['anchors']['files'])}.

These changes have been tried already; produce DIFFERENT ones (different function or different mechanism):
""" + '\n'.join(tried) + f"""

Task: produce {cnt} NEW realistic code changes (the kind of bug a maintainer could plausibly introduce in a refactor, an "optimisation" or a feature tweak), each of which (a) still compiles, (b) keeps the whole existing test suite passing (`go test -count=1 ./...` in the worktree; all packages must be ok), and (c) makes the property false, demonstrated by a new Go test that FAILS with the change and PASSES on the unchanged code. Spread them over different functions and different clauses of the property statement; read the relevant code first and look for the places the property really depends on, including helpers that are easy to overlook. Each change should be small (1-10 lines), not a blatant deletion of a whole function body, and must not touch test files.

For each change i (1..{cnt}) write into {out}:
 - change<i>.diff : a unified diff produced with `git diff -- <files you changed>` in the worktree (must apply with `git apply` to a clean checkout of the same commit; only non-test files of the repository),
 - demo<i>_test.go : a self-contained Go test file, an in-package test of the package it exercises (one of: {', '.join(pkgs)}; it will be copied to <package>/zz_seed_demo_test.go; test function names must start with TestSeed; it must not depend on helpers defined in other _test.go files unless they exist in the unchanged repository) that fails with the change and passes without it,
 - notes<i>.md : 3-6 lines: what the change does, which clause of the property it breaks, and the failing scenario.
After writing each change, verify it yourself: start from the unchanged state of the files you edit (`git -C {wt} checkout -- <file>` for specific non-test files only; do NOT run `git checkout -- .` or `git clean`: the worktree has deliberately deleted files named zz_verif* which must stay deleted and must never appear in your diffs), apply the diff, run the full suite, run your demo test with and without the change. Leave the worktree in the unchanged state and remove your demo test file when done.

Report at the end: for each change, one line with the file/function changed and whether suite passes / demo fails with / demo passes without.
"""
open('/tmp/seed/prompt_%s.txt' % prop, 'w').write(txt)
print(len(txt), 'chars ->', '/tmp/seed/prompt_%s.txt' % prop)
