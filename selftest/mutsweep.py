#!/usr/bin/env python3
"""Runs selftest/mutate.py over every function under contract of the given properties (from the evidence files), each
worker on its own scratch copy of /repo (never /repo itself). usage: mutsweep.py <workers> <outfile> <prop>..."""
import json, os, re, subprocess, sys, glob, shutil
from concurrent.futures import ThreadPoolExecutor
workers = int(sys.argv[1]); outfile = sys.argv[2]; props = sys.argv[3:]
jobs = {}
srcs = [f for d in ('ast', 'boltz', 'objectz', 'zitiql') for f in glob.glob('/repo/%s/*.go' % d) if not f.endswith('_test.go') and 'zz_verif' not in f and 'zitiql_parser' not in f and 'zitiql_lexer' not in f]
texts = {f: open(f).read() for f in srcs}
for prop in props:
    ev = json.load(open('/verif/evidence/%s.json' % prop))
    for fn in ev['coverage'].get('functions_under_contract', []):
        fn = fn.split(' (impl')[0]
        m = re.match(r'^(\w+)\.(?:\((\*?)(\w+)\)\.)?(\w+)(\$\d+)?$', fn)
        if not m or m.group(5): continue
        pkg, star, recv, name = m.group(1), m.group(2), m.group(3), m.group(4)
        for f, t in texts.items():
            if os.path.basename(os.path.dirname(f)) != pkg: continue
            if recv:
                mm = re.search(r'^func \(\w+ \*?%s(\[[^\]]*\])?\) %s\(' % (recv, name), t, re.M)
            else:
                mm = re.search(r'^func %s(\[[^\]]*\])?\(' % name, t, re.M)
            if mm:
                rel = os.path.relpath(f, '/repo')
                pat = (r'%s\.\(\*?%s\)\.%s$' % (pkg, recv, name)) if recv else (r'%s\.%s$' % (pkg, name))
                jobs[(rel, name, pat, recv or '')] = prop
                break
jobs = sorted(jobs)
print(len(jobs), 'functions')
copies = []
for w in range(workers):
    d = '/tmp/mutrepo%d' % w
    shutil.rmtree(d, ignore_errors=True)
    subprocess.check_call(['rsync', '-a', '--exclude', '.git', '/repo/', d + '/'])
    copies.append(d)
import queue
q = queue.Queue()
for c in copies: q.put(c)
def run(job):
    d = q.get()
    try:
        env = dict(os.environ, MUT_REPO=d)
        args = ['python3', '/verif/selftest/mutate.py', job[0], job[1], job[2]] + ([job[3]] if job[3] else [])
        p = subprocess.run(args, capture_output=True, text=True, env=env)
        return (p.stdout + p.stderr).strip()
    finally:
        q.put(d)
with ThreadPoolExecutor(workers) as ex, open(outfile, 'w') as out:
    for r in ex.map(run, jobs):
        out.write(r + '\n'); out.flush()
for c in copies: shutil.rmtree(c, ignore_errors=True)
