#!/bin/bash
# usage: confirm_seed.sh <prop> <n> <outdir>  -- confirms a seeded change in a scratch worktree and stores it under /verif/seeded/<prop>-<n>/
export GOFLAGS=-mod=mod GOPROXY=off GOSUMDB=off GOTOOLCHAIN=local
prop=$1; n=$2; out=$3
wt=/tmp/seed/confirm_$prop_$n
rm -rf $wt; git -C /repo worktree prune; git -C /repo worktree add -q --detach $wt HEAD || exit 2
cd $wt
patch=$out/change$n.diff; demo=$out/demo${n}_test.go
pkg=$(grep -m1 '^package ' $demo | awk '{print $2}'); pkg=${pkg%_test}
res="prop=$prop n=$n"
git apply $patch || { echo "$res APPLY-FAILED"; cd /; git -C /repo worktree remove --force $wt; exit 1; }
go build ./... >/dev/null 2>&1 || res="$res BUILD-FAILED"
suite=$(go test -count=1 ./... 2>&1 | grep -c "^FAIL")
cp $demo $pkg/zz_seed_demo_test.go
with=$(go test -count=1 ./$pkg/ -run 'Seed|Demo' 2>&1 | tail -1 | awk '{print $1}')
git apply -R $patch
without=$(go test -count=1 ./$pkg/ -run 'Seed|Demo' 2>&1 | tail -1 | awk '{print $1}')
echo "$res suite_fail_lines=$suite demo_with_change=$with demo_without=$without"
cd /; git -C /repo worktree remove --force $wt
if [ "$suite" = "0" ] && [ "$with" = "FAIL" ] && [ "$without" = "ok" ]; then
  d=/verif/seeded/$prop-$n; mkdir -p $d
  cp $patch $d/patch.diff; cp $demo $d/demo_test.go; cp $out/notes$n.md $d/notes.md 2>/dev/null
  echo CONFIRMED
fi
