#!/bin/bash
# usage: mut.sh <file-in-repo> <old> <new> <vc-pattern>   (applies, runs govc vc, restores the file from a backup copy)
cd /repo || exit 2
cp "$1" /tmp/mut.bak
python3 - "$1" "$2" "$3" <<'PY'
import sys
f,a,b=sys.argv[1:4]
s=open(f).read()
if s.count(a)<1:
    print("PATTERN NOT FOUND"); sys.exit(3)
open(f,'w').write(s.replace(a,b,1))
PY
[ $? -eq 0 ] && /verif/bin/govc vc "$4" 2>&1 | grep -v "^discharged" | cut -c1-200
cp /tmp/mut.bak "$1"
