#!/usr/bin/env python3
"""Mutation self-test: applies simple mutation operators to one function of /repo, runs `govc vc` on the functions
matching a pattern, and lists the mutants no obligation notices. Survivors are then run against the package's own tests:
a survivor the suite does not notice either and that changes behaviour is a hole in the contracts.
usage: mutate.py <file-in-repo> <func name as in source, e.g. 'ProcessAfterUpdate'> <vc-pattern> [receiver-substring]"""
import re, subprocess, sys, os, shutil
f, fname, pat = sys.argv[1:4]
recv = sys.argv[4] if len(sys.argv) > 4 else ''
REPO = os.environ.get('MUT_REPO', '/repo')
path = REPO + '/' + f
src = open(path).read()
lines = src.split('\n')
start = None
for i, l in enumerate(lines):
    if re.match(r'^func (\([^)]*\) )?' + re.escape(fname) + r'\b', l) and recv in l:
        start = i; break
assert start is not None, 'function not found'
depth = 0; end = None
for i in range(start, len(lines)):
    depth += lines[i].count('{') - lines[i].count('}')
    if depth == 0 and i > start:
        end = i; break
ops = [(r' == ', ' != '), (r' != ', ' == '), (r' < ', ' <= '), (r' > ', ' >= '), (r' <= ', ' < '), (r' >= ', ' > '),
       (r' && ', ' || '), (r' \|\| ', ' && '), (r'\btrue\b', 'false'), (r'\bfalse\b', 'true'), (r'if !', 'if '), (r'\+ 1\b', '+ 2'), (r'- 1\b', '- 0')]
mutants = []
for i in range(start + 1, end):
    l = lines[i]
    if l.strip().startswith('//'): continue
    for a, b in ops:
        for m in re.finditer(a, l):
            nl = l[:m.start()] + re.sub(a, b, l[m.start():m.end()]) + l[m.end():]
            if nl != l: mutants.append((i, nl, '%s -> %s' % (a.strip(), b.strip())))
    s = l.strip()
    # delete a statement that is a plain call or an assignment from a call (keep declarations so it compiles more often)
    if re.match(r'^[A-Za-z_][\w.]*(\[[^\]]*\])?\(.*\)$', s) or re.match(r'^[\w.]+\.\w+\(.*\)$', s):
        mutants.append((i, l[:len(l) - len(l.lstrip())] + '// ' + s, 'delete call'))
    if re.match(r'^return err$', s): mutants.append((i, l.replace('return err', 'return nil'), 'return nil'))
    if s == 'continue': mutants.append((i, l.replace('continue', 'break'), 'continue->break'))
    if s == 'break': mutants.append((i, l.replace('break', 'continue'), 'break->continue'))
env = dict(os.environ, GOFLAGS='-mod=mod', GOPROXY='off', GOSUMDB='off', GOTOOLCHAIN='local', VERIF_REPO=REPO)
pkg = './' + os.path.dirname(f) + '/'
bak = '/tmp/mutate.bak.%d' % os.getpid()
shutil.copy(path, bak)
res = []
try:
    for n, (i, nl, what) in enumerate(mutants):
        ml = list(lines); ml[i] = nl
        open(path, 'w').write('\n'.join(ml))
        if subprocess.call(['go', 'build', pkg], cwd=REPO, env=env, stdout=subprocess.DEVNULL, stderr=subprocess.DEVNULL) != 0:
            res.append((n, i + 1, what, 'nocompile')); continue
        p = subprocess.run(['/verif/bin/govc', 'vc', '-t', '10', pat], capture_output=True, text=True, env=env)
        out = p.stdout + p.stderr
        m = re.search(r'(\d+) not discharged', out)
        killed = ('ENGINE-ERROR' in out) or (m and int(m.group(1)) > 0) or not m
        if killed:
            res.append((n, i + 1, what, 'killed')); continue
        t = subprocess.run(['go', 'test', '-count=1', '-timeout', '300s', pkg], cwd=REPO, env=env, capture_output=True, text=True)
        res.append((n, i + 1, what, 'SURVIVED (suite %s): %s' % ('passes' if t.returncode == 0 else 'fails', nl.strip()[:110])))
finally:
    shutil.copy(bak, path); os.remove(bak)
k = sum(1 for r in res if r[3] == 'killed'); nc = sum(1 for r in res if r[3] == 'nocompile')
print('%s %s: %d mutants, %d killed, %d do not compile, %d survived' % (f, fname, len(res), k, nc, len(res) - k - nc))
for r in res:
    if r[3].startswith('SURVIVED'): print('  line %d [%s] %s' % (r[1], r[2], r[3]))
