#!/bin/bash
# usage: mutn.sh <file-in-repo> <old> <new> <n> <vc-pattern> [timeout]
# replaces the n-th (1-based) occurrence of <old>, runs govc vc, restores the file from a backup copy
cd /repo || exit 2
bak=$(mktemp /tmp/mutn.XXXXXX)
cp "$1" "$bak"
python3 - "$1" "$2" "$3" "$4" <<'PY'
import sys
f,a,b,n=sys.argv[1],sys.argv[2],sys.argv[3],int(sys.argv[4])
s=open(f).read()
parts=s.split(a)
if len(parts)<=n:
    print("PATTERN NOT FOUND"); sys.exit(3)
open(f,'w').write(a.join(parts[:n])+b+a.join(parts[n:]))
PY
[ $? -eq 0 ] && /verif/bin/govc vc -t "${6:-20}" "$5" 2>&1 | grep -v "^discharged" | grep -v "^load error" | cut -c1-180
cp "$bak" "$1"; rm -f "$bak"
