#!/bin/bash
# runs the quick check of every claimed property and prints the summary lines
cd /verif
for p in $(python3 -c "import json; print(' '.join(c['property_id'] for c in json.load(open('MANIFEST.json'))['checks']))"); do
  bin/govc check $p --tier quick 2>&1 | grep "^property\|^VIOLATION" | cut -c1-220
done
