#!/usr/bin/env python3
"""Consistency smoke test of the background theory: dumps every axiom the engine can add to a query
(`govc axioms`), adds ground applications of every declared function to a small pool of constants (depth 2)
so that the solvers' triggers have something to fire on, and checks that no solver derives a contradiction.
A contradiction here would make every obligation trivially provable; the per-function cover obligations
guard against the same thing query by query. Exit 1 if any solver says unsat."""
import re, subprocess, sys, itertools, os
txt = subprocess.run(['/verif/bin/govc','axioms'],capture_output=True,text=True,cwd='/repo').stdout
if '(declare-sort Str' not in txt:
    print('cannot dump axioms'); sys.exit(2)
decls = re.findall(r'^\(declare-fun (\S+) \((.*?)\) (\(Array .*?\)|\S+)\)$', txt, re.M)
defs = re.findall(r'^\(define-fun (\S+) \((.*?)\) (\(Array .*?\)|\S+) ', txt, re.M)
def split_sorts(s):
    out=[];depth=0;cur=''
    for ch in s:
        if ch=='(':depth+=1
        if ch==')':depth-=1
        if ch==' ' and depth==0:
            if cur: out.append(cur); cur=''
        else: cur+=ch
    if cur: out.append(cur)
    return out
funs=[]
for n,a,r in decls: funs.append((n,split_sorts(a),r))
for n,a,r in defs:
    ps=re.findall(r'\((\S+) (\(Array .*?\)|[^()\s]+)\)', a)
    funs.append((n,[p[1] for p in ps],r))
pool={'Str':['s!1','s!2','str_empty'],'Int':['i!1','i!2','0','1','5','300','(- 1)'],'Bool':['b!1','true'],'Real':['r!1'],
      '(Array Int Int)':['a!1'],'(Array Int Str)':['as!1'],'(Array Str Bool)':['h!1'],'(Array Int Bool)':['ab!1']}
extra=['(declare-fun s!1 () Str)','(declare-fun s!2 () Str)','(declare-fun i!1 () Int)','(declare-fun i!2 () Int)','(declare-fun b!1 () Bool)',
       '(declare-fun r!1 () Real)','(declare-fun a!1 () (Array Int Int))','(declare-fun as!1 () (Array Int Str))','(declare-fun h!1 () (Array Str Bool))','(declare-fun ab!1 () (Array Int Bool))']
terms=[]
def apps(pool, limit):
    out={}
    for n,args,r in funs:
        if not args or any(a not in pool for a in args): continue
        combos=itertools.islice(itertools.product(*[pool[a] for a in args]), limit)
        for c in combos:
            out.setdefault(r,[]).append('(%s %s)'%(n,' '.join(c)))
    return out
d1=apps(pool,12)
pool2={k:list(v) for k,v in pool.items()}
for r,ts in d1.items():
    pool2.setdefault(r,[]).extend(ts[:6])
d2=apps(pool2,40)
k=0
for r,ts in list(d1.items())+list(d2.items()):
    for t in ts:
        k+=1
        extra.append('(declare-fun g!%d () %s)'%(k,r)); extra.append('(assert (= g!%d %s))'%(k,t))
q=txt+'\n'.join(extra)+'\n(check-sat)\n'
os.makedirs('/verif/work',exist_ok=True)
open('/verif/work/axioms_check.smt2','w').write(q)
bad=False
for name,cmd in (('z3-4.8.12',['z3','-T:60']),('z3-new',['z3-new','-T:60']),('cvc5',['cvc5','--tlimit=60000'])):
    r=subprocess.run(cmd+['/verif/work/axioms_check.smt2'],capture_output=True,text=True)
    ans=(r.stdout.strip().split('\n') or ['?'])[0]
    print('%-10s %s'%(name,ans[:80]))
    if ans=='unsat': bad=True
print('axioms: %d assertions, %d ground terms'%(txt.count('(assert'),k))
sys.exit(1 if bad else 0)
