package boltz

// Demonstration for the C09 defects repaired by the "fix:" commits on setIndex.CheckIntegrity and
// linkCollectionImpl.IterateLinks: a check-only integrity run (fix == false) changed the database.
// Fails on the code before the fixes, passes after. Not part of the repository's suite.

import (
	"testing"

	"github.com/stretchr/testify/require"
	"go.etcd.io/bbolt"
)

func dumpBucket(b *bbolt.Bucket, prefix string, out map[string]string) {
	_ = b.ForEach(func(k, v []byte) error {
		if v == nil && b.Bucket(k) != nil {
			out[prefix+"/"+string(k)+"/"] = "<bucket>"
			dumpBucket(b.Bucket(k), prefix+"/"+string(k), out)
		} else {
			out[prefix+"/"+string(k)] = string(v)
		}
		return nil
	})
}

func dumpDb(t *crudTest) map[string]string {
	out := map[string]string{}
	_ = t.db.View(func(tx *bbolt.Tx) error {
		return tx.ForEach(func(name []byte, b *bbolt.Bucket) error {
			out["/"+string(name)+"/"] = "<bucket>"
			dumpBucket(b, "/"+string(name), out)
			return nil
		})
	})
	return out
}

func TestSeedDemoCheckModeIsReadOnly(t *testing.T) {
	test := &crudTest{}
	test.Assertions = require.New(t)
	test.init(false)
	defer test.cleanup()
	employees, _ := test.initStoresForIntegrityChecks()

	// (a) a plain key (not a bucket of ids) in the set index; (b) an entity value whose index bucket is missing
	err := test.db.Update(func(tx *bbolt.Tx) error {
		index := test.empStore.indexRoles.(*setIndex)
		indexBucket := Path(tx, index.indexPath...)
		if err := indexBucket.Put([]byte("stray"), []byte("x")); err != nil {
			return err
		}
		entityBucket := test.empStore.GetEntityBucket(tx, []byte(employees[3].Id))
		return entityBucket.GetOrCreatePath(fieldRoleAttributes).SetListEntry(TypeString, []byte("unindexed")).Err
	})
	test.NoError(err)

	before := dumpDb(test)
	err = test.db.Update(func(tx *bbolt.Tx) error {
		return test.empStore.CheckIntegrity(newTestMutateContext(tx), false, func(err error, fixed bool) {
			test.False(fixed, "nothing is fixed in check mode: %v", err)
		})
	})
	test.NoError(err)
	after := dumpDb(test)
	for k, v := range before {
		if w, ok := after[k]; !ok || w != v {
			t.Errorf("a check-only integrity run must leave the database unchanged: %q was %q, now %q (present: %v)", k, v, w, ok)
		}
	}
	for k, v := range after {
		if _, ok := before[k]; !ok {
			t.Errorf("a check-only integrity run must leave the database unchanged: %q = %q was created", k, v)
		}
	}
}

// an entity that never had links: iterating its links (as the link integrity check does) must not create the bucket
func TestSeedDemoIterateLinksIsReadOnly(t *testing.T) {
	test := &crudTest{}
	test.Assertions = require.New(t)
	test.init(false)
	defer test.cleanup()
	emp := &Employee{Id: "e1", Name: "n1"}
	test.NoError(test.db.Update(func(tx *bbolt.Tx) error {
		return test.empStore.Create(newTestMutateContext(tx), emp)
	}))
	before := dumpDb(test)
	test.NoError(test.db.Update(func(tx *bbolt.Tx) error {
		return test.empStore.CheckIntegrity(newTestMutateContext(tx), false, func(err error, fixed bool) {})
	}))
	after := dumpDb(test)
	for k, v := range after {
		if _, ok := before[k]; !ok {
			t.Errorf("a check-only integrity run must leave the database unchanged: %q = %q was created", k, v)
		}
	}
}
