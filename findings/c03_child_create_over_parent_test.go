package boltz

// Demonstration (C03/C15): creating an entity through a child store with the id of an entity that exists only in the
// parent store is accepted, rewrites the parent's fields as a *create* and leaves the parent's old index entries behind.
// Run with: go test -overlay (see DESIGN.md section 7).

import (
	"testing"

	"github.com/stretchr/testify/require"
	"go.etcd.io/bbolt"
)

func TestFindingC03ChildCreateOverExistingParent(t *testing.T) {
	test := &crudTest{}
	test.Assertions = require.New(t)
	test.init(false)
	defer test.cleanup()

	err := test.db.Update(func(tx *bbolt.Tx) error {
		return test.empStore.Create(newTestMutateContext(tx), &Employee{Id: "e1", Name: "ann", RoleAttributes: []string{"dev"}})
	})
	test.NoError(err)
	err = test.db.Update(func(tx *bbolt.Tx) error {
		return test.mgrStore.Create(newTestMutateContext(tx), &Manager{Employee: Employee{Id: "e1", Name: "bob", RoleAttributes: []string{"ops"}}, IsTechLead: true})
	})
	t.Logf("create through the child store over an existing parent entity: err=%v", err)
	if err != nil {
		return // rejected: nothing to show
	}
	err = test.db.View(func(tx *bbolt.Tx) error {
		stale := test.empStore.indexName.Read(tx, []byte("ann"))
		cur := test.empStore.indexName.Read(tx, []byte("bob"))
		t.Logf("name index: ann -> %q, bob -> %q; role dev -> %v, ops -> %v", string(stale), string(cur),
			test.empStore.getEmployeesWithRoleAttribute(tx, "dev"), test.empStore.getEmployeesWithRoleAttribute(tx, "ops"))
		test.Nil(stale, "the unique index still maps the old name to e1")
		test.Empty(test.empStore.getEmployeesWithRoleAttribute(tx, "dev"), "the set index still lists e1 under its old role")
		return nil
	})
	test.NoError(err)
}
