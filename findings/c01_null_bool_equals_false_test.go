package ast

// Demonstration for the recorded C01 finding: a null boolean symbol compared with `= false` matches.
// The property says a null operand makes every comparison false except != and the negated forms.
// BoolSymbolNode.EvalBool turns null into false before BinaryBoolExprNode compares, so the null is lost.
// Fails on the current code (kept as a known finding, not repaired: BoolNode has no way to report null; a repair
// changes the BoolNode interface or the meaning of bare boolean symbols). Not part of the repository's suite.

import "testing"

// a symbol table whose boolean symbol nb is null (as the bolt row cursor reports a field that is not set)
type nullBoolSymbols struct {
	*testSymbols
}

func (s *nullBoolSymbols) EvalBool(name string) *bool {
	if name == "nb" {
		return nil
	}
	return s.testSymbols.EvalBool(name)
}

func (s *nullBoolSymbols) IsNil(name string) bool {
	return name == "nb" || s.testSymbols.IsNil(name)
}

func TestSeedDemoNullBoolEqualsFalse(t *testing.T) {
	symbols := &nullBoolSymbols{&testSymbols{
		values:  map[string]interface{}{"nb": nil, "flag": true},
		types:   map[string]NodeType{"nb": NodeTypeBool},
		cursors: map[string]*testSymbolsSetCursor{},
	}}
	for _, tc := range []struct {
		expr string
		want bool
	}{
		{"nb = true", false},
		{"nb = false", false}, // null = false must not match
		{"nb != false", true},
	} {
		query, err := Parse(symbols, tc.expr)
		if err != nil {
			t.Fatalf("%v: %v", tc.expr, err)
		}
		if got := query.EvalBool(symbols); got != tc.want {
			t.Errorf("%q on a null boolean: got %v, want %v", tc.expr, got, tc.want)
		}
	}
}
