package boltz

// Demonstration for the C04 defect repaired by the "fix:" commit on fkDeleteCascadeConstraint.ProcessBeforeDelete:
// the restrict/cascade check built filter text from the raw id. Fails on the code before the fix, passes after.
// Not part of the repository's suite.

import (
	"testing"

	"github.com/stretchr/testify/require"
	"go.etcd.io/bbolt"
)

func TestSeedDemoDeleteWithQuoteInId(t *testing.T) {
	test := &crudTest{}
	test.Assertions = require.New(t)
	test.init(true) // employees.manager is an fk constraint (restrict)
	defer test.cleanup()

	for _, id := range []string{`a"b`, `back\slash`, `x" or true or id = "`, "plain"} {
		boss := &Employee{Id: id, Name: "boss " + id}
		report := &Employee{Id: "report of " + id, Name: "report " + id, ManagerId: &boss.Id}
		test.NoError(test.db.Update(func(tx *bbolt.Tx) error {
			ctx := newTestMutateContext(tx)
			if err := test.empStore.Create(ctx, boss); err != nil {
				return err
			}
			return test.empStore.Create(ctx, report)
		}))
		// restrict: the referenced entity cannot be deleted, and the error is the reference error
		err := test.db.Update(func(tx *bbolt.Tx) error {
			return test.empStore.DeleteById(newTestMutateContext(tx), boss.Id)
		})
		test.Error(err, "id %q is referenced", id)
		test.True(IsReferenceExistsError(err), "id %q: expected a reference-exists error, got %v", id, err)
		// once the referrer is gone the entity can be deleted, whatever characters its id contains
		test.NoError(test.db.Update(func(tx *bbolt.Tx) error {
			return test.empStore.DeleteById(newTestMutateContext(tx), report.Id)
		}))
		test.NoError(test.db.Update(func(tx *bbolt.Tx) error {
			return test.empStore.DeleteById(newTestMutateContext(tx), boss.Id)
		}), "id %q has no referrers any more", id)
	}
}
