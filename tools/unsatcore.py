#!/usr/bin/env python3
"""usage: unsatcore.py file.smt2 -- greedy minimal unsat subset of the assertions (debugging aid for vacuity)"""
import subprocess,sys
f=sys.argv[1]
lines=open(f).read().split('\n')
def unsat(ls):
    open('/tmp/_core.smt2','w').write('\n'.join(ls))
    r=subprocess.run(['z3-new','-T:5','/tmp/_core.smt2'],capture_output=True,text=True).stdout
    return r.strip().startswith('unsat')
if not unsat(lines):
    print('not unsat'); sys.exit(1)
idx=[i for i,l in enumerate(lines) if l.startswith('(assert')]
keep=set(idx)
for i in idx:
    trial=[l for j,l in enumerate(lines) if j not in idx or (j in keep and j!=i)]
    if unsat(trial): keep.discard(i)
for i in sorted(keep): print(lines[i][:600])
