#!/usr/bin/env python3
# Generates /verif/MANIFEST.json. Edit CLAIMS / NA below, run, commit.
import json, subprocess

TRUST = ("go/ssa + the govc VC generator; z3 4.8.12, z3 5.1.0, cvc5 1.0; trusted contracts on dependencies "
         "(listed per run in the evidence file); integers exact with wrap-around, float64 as reals; slices as immutable values; "
         "closed world of interface implementations; termination and goroutines not modelled")

CLAIMS = {
 "C02": dict(
   text="Proof obligations over the real code: uniqueIndexScanner.ScanCursor returns count = number of matching elements of the cursor sequence and exactly the matching elements number off..off+lim-1 in sequence order (loop invariants over a ghost cursor model, cnt/nth spec functions); nextUnpaged skips exactly the non-matching elements; setPaging computes offset=max(skip,0) and limit (absent/negative -> unbounded); sortingScanner keeps a window of min(count, off+lim) rows with off+lim computed without wrap-around, counts every match, and its Do callback drops the first off rows; the five typed comparators order nil first when ascending and negate when descending.",
   design="5/C02",
   note=TRUST + ". Not mechanised: the llrb tree holds the *smallest* rows (trusted llrb contract + comparator total order argued in DESIGN.md); newRowComparator's id tie-break; the parse of skip/limit/sort text.",
   technique="contract-based deductive verification: weakest-precondition VCs over go/ssa, loop invariants, SMT (z3/cvc5)"),
 "C19": dict(
   text="Proof obligations over the real code of objectz: IsNil(name) is true exactly when the symbol's pointer is null (typed-nil boxed in an interface is decided, not guessed); Eval<T> returns the pointer iff the symbol has type T; setPaging and memSortingScanner.Scan satisfy the same window/count/skip contracts as the bolt sortingScanner (no wrap-around of off+lim); the five comparators satisfy the same null-first/descending contract as the bolt comparators.",
   design="5/C19",
   note=TRUST + ". 'Same answer as the bolt store' is phrased as both implementations satisfying the same spec functions; user-supplied symbol functions and iterators are trusted contracts.",
   technique="contract-based deductive verification: shared specification for both stores, VCs over go/ssa, SMT"),
}

CLAIMS["C07"] = dict(
   text="Ghost protocol `errflow` on every mutating store, link-collection, typed-bucket and transaction function (listed in the evidence): on every path, a non-nil error returned by any callee implies a non-nil error result (or the declared error holder holds an error), with explicit holder postconditions (bucket.Err != nil ==> returned error != nil) on Create, Update, processDeleteConstraints and the TypedBucket link-count/list-entry operations; the closures DbImpl.Update/Batch hand to bbolt return every failure of the caller's function and of the pre-commit actions; post-commit functions carry a `committed` permission that no transaction code can provide, so they are reachable only as bbolt OnCommit callbacks.",
   design="5/C07",
   note=TRUST + ". Assumed, not proved: bbolt restores the database when the update function returns an error and runs OnCommit callbacks only after a successful commit (that is the whole 'left exactly as before' half); error holders latch (no code resets ErrorHolderImpl.Err); panic-freedom of these functions is not claimed here.",
   technique="contract-based deductive verification: ghost error-flow protocol + postconditions, VCs over go/ssa, SMT")

CLAIMS["C16"] = dict(
   text="Proof obligations over the real code: systemEntityConstraint.checkOperation returns an error exactly when the stored system flag of the row is true and the mutate context is not the system wrapper; ProcessBeforeUpdate (non-create), ProcessAfterUpdate (create) and ProcessBeforeDelete record that veto in the operation's error holder and nothing else does; IsSystemContext is true exactly for *systemMutateContext (proved for both implementations); NewSystemMutateContext/GetSystemContext return a system context. With C07's error-flow obligations a vetoed operation fails and rolls back.",
   design="5/C16",
   note=TRUST + ". Assumed: the store registers the constraint and the entity strategy calls SetBaseValues; that an update never rewrites the stored flag is argued from UpdateBaseValues writing only updatedAt/tags (covered by the C13 setter frames when those are under contract).",
   technique="contract-based deductive verification: iff-postconditions + interface-level contract with impl obligations, SMT")
CLAIMS["C20"] = dict(
   text="For every struct type of package ast that implements Node (enumerated from go/types on every run; a type or child field without a contract fails the check) the Accept method is proved to invoke Accept with the same visitor on every non-nil child field (loop invariants for slice fields) and symbol nodes are proved to report their name through VisitSymbol; publicSymbolValidator.VisitSymbol is proved to latch an error exactly when a non-public symbol is seen; BaseStore.IsPublicSymbol is proved to be 'in publicSymbols, or element of a public map symbol'; ValidateSymbolsArePublic visits the query and returns the validator's error.",
   design="5/C20",
   note=TRUST + ". The whole-tree statement is the structural induction whose step is each Accept postcondition (not mechanised); visitors are assumed not to modify the AST; strings.Split is a trusted contract.",
   technique="contract-based deductive verification: ghost visited/symSeen sets, per-type Accept postconditions, go/types enumeration for completeness")

CLAIMS["C10"] = dict(
   text="Panic-freedom sweep: for every function of the hand-written AST/typing/listener files of package ast (about 500 functions, enumerated on every run) the obligations nil-dereference, index/slice bounds, type assertion, division and explicit panic are generated from the SSA and discharged, using a closed table of the node types (GetType contracts generated from the code), representation invariants of the node types (operands never nil; checked wherever a node is published), the error latch of the parse listener, and preconditions on the typed-dispatch helpers that their callers are proved to establish. zitiql.parse is proved to register the caller's error listener on the lexer and on the parser before parsing starts (ghost listener sets), so unrecognised characters and syntax errors reach ParseWithDebug's result.",
   design="5/C10",
   note=TRUST + ". Assumed (listed per run): what is on the parse stack when an ANTLR callback runs (grammar + walker order), the tree-shape of the AST during the typing pass (typing one operand leaves its siblings alone), that ANTLR's own runtime terminates without panicking and reports errors to registered listeners. cursors.go is covered under C14.",
   technique="contract-based deductive verification: zero/thin-annotation safety sweep over go/ssa with type-table and representation-invariant contracts, SMT")

CLAIMS["C14"] = dict(
   text="Interface-level contract of ast.SetCursor/SeekableSetCursor over a ghost model (sequence, length, position, direction): IsValid iff position < length, Current = sequence[position] (a non-nil value), Next advances by one, Seek(v) lands on the first element that is not before v in the cursor's direction with everything skipped before v. The four bbolt adapters (forward/reverse x raw/typed), the set-symbol runtime cursor and the empty cursor are each proved to implement it, with the model defined from the bbolt cursor they wrap (views) and representation invariants re-established by every method; typed cursors are proved to return elements without the storage tag, including the empty element. filteredCursor, unionSetCursor, sliceSetCursor, ValidIdsCursors and uniqueIndexScanner.Next/Seek are proved against per-step functional contracts (skip only rejected elements / one merge step / offset-limit bookkeeping); the cursor constructors (TypedBucket.Open*/Iterate*, setIndex.OpenValueCursor/OpenKeyCursor) are proved to pick the typed or raw adapter and the requested direction.",
   design="5/C14",
   note=TRUST + ". Assumed: the bbolt cursor model (sorted keys, First/Last/Next/Prev/Seek), that typed set buckets contain only keys carrying the field type tag, the byte-level meaning of PrependFieldType (prepend/untag axioms). treeCursor (llrb in-order walk) has safety obligations only; its enumeration order is not proved. IteratorMatchingAllOf/AnyOf closures and stackedCursor are not under contract.",
   technique="contract-based deductive verification: interface-level contract with ghost views, impl obligations per cursor kind, loop invariants, SMT")

CLAIMS["C13"] = dict(
   text="Every typed setter of TypedBucket (string, *string, bool, int32, int64, float64, time, *time, nil) is proved to store exactly the tag byte followed by the little-endian / marshalled payload under the field name, to do nothing at all when an error is pending or the field checker does not select the field, and to leave the bucket unchanged when the write fails; every getter is proved to decode that layout. Round-trip lemmas (Go functions behind the verif tag that compose a setter with a getter and are verified against the two contracts only) give: each type reads back equal, int32 widens to int64, times read back as the same instant, null reads back null from every getter and stays distinct from the empty string, a write through a checker that does not select the field (or to another field) is invisible to getters. String lists: SetStringList is proved to leave exactly the tagged elements as the sub-bucket's key set (loop invariant), ReadStringList/GetStringList to return the keys in byte order without tag; lemma: what is read back is strictly sorted, contains only written elements and every written element. Containers: setMarshaled/getMarshaled per dynamic type (int widens to int64, float32 to float64), PutList/GetList element-wise for scalar elements (loop invariants, size marker), PutMap/GetMap entry-wise for scalar entries (map-iteration ghost: every key produced exactly once), with lemmas for lists and maps of scalars; PersistContext setters pass the context's field checker; UpdateBaseValues touches only updatedAt and tags. Compound keys: EncodeByteSlice = varint length then bytes, EncodeStringSlice = concatenation (loop invariant), DecodeNext/DecodeStringSlice decode every such encoding (quantified loop invariant); lemmas: decode(encode(L)) = L for every list with elements <= 4096 bytes, and equal encodings imply equal lists.",
   design="5/C13",
   note=TRUST + ". Assumed (listed per run): the byte-string theory axioms (prepend/untag, concat, sub-string, byte1), encoding/binary little-endian and varint contracts, math.Float64bits as a bijection on bit patterns (floats are modelled as reals, so NaN payloads and -0 are outside the model), time.MarshalBinary/UnmarshalBinary inverse on instants, the bbolt bucket model (Put/Get/Delete/CreateBucket, cursor enumerates the key set in byte order, a freshly created bucket is empty, a bucket has finitely many keys), stored payloads under a bool/int/float tag have the size the setters write. Not proved: nested maps/lists inside containers (only frames and error propagation), lists longer than 2^31-1, GetMap/GetList on buckets with a pending error.",
   technique="contract-based deductive verification: byte-level postconditions on setters/getters, loop invariants, ghost map-iteration set, lemma functions composed from contracts, SMT (z3/cvc5)")

CLAIMS["C11"] = dict(
   text="ParseZqlString (after the single-pass repair, fix commit in known_findings.txt) is proved, by a loop invariant quantified over all strings s, to return s for every literal whose body is the escaping of s (backslash and double quote backslash-escaped, \\f \\n \\r \\t for the four control characters the grammar cannot take raw; escFrom is the recursive definition of that body); in particular an escaped backslash followed by a letter is consumed as one escape and the letter is copied. Lemma functions behind the verif tag: verifLiteral builds the literal of s and is proved to produce exactly quote + escFrom(s) + quote; ParseZqlString(verifLiteral(s)) == s for every s; verifLiteral(a) == verifLiteral(b) implies a == b.",
   design="5/C11",
   note=TRUST + ". Assumed: the byte-string theory axioms (concat, sub-string, byte1), strings.TrimPrefix/TrimSuffix contracts; that the lexer hands VisitTerminal exactly the STRING token text and that the grammar admits exactly these escapes (ZitiQl.g4, read, not verified); that a comparison node compares with the value ParseZqlString returned (listener code covered by the C10 sweep for safety only). Strings longer than 2^62 bytes are outside the model.",
   technique="contract-based deductive verification: quantified loop invariant against a recursive spec function, lemma functions composed from contracts, SMT (z3/cvc5)")

CLAIMS["C18"] = dict(
   text="Only the sequential half that contracts can decide: a function that writes no memory reachable by another goroutine cannot race with itself. Proved as frame obligations on the real code: IsErrNotFoundErr, IsReferenceExistsError and IsUniqueIndexDuplicateError write nothing but a fresh local (errors.As is trusted to write only through its target; the package-level targets were a genuine race, repaired by a fix commit and the obligations fail again on the old body); BaseStore.GetSymbol writes nothing that existed before the call and never hands out a pre-existing *entitySetSymbolRuntime (the only symbol type with cursor state): every implementation of GetRuntimeSymbol returns a fresh object, composite and map-element symbols are fresh or one of their fresh inputs; zitiql.parse takes its lexer and parser from the pools and returns every instance it took exactly once on every path (ghost set of checked-out instances; Put requires the instance to be checked out). NOT claimed here, and outside this technique: that a read transaction observes exactly one committed state under every interleaving (bbolt MVCC) and race-freedom of the ANTLR runtime's shared caches.",
   design="5/C18",
   note=TRUST + ". Assumed: errors.As writes only *target; sync.Pool hands an object to one taker at a time; the store's symbol table holds no *entitySetSymbolRuntime (nothing in the repository adds one; not mechanised). The snapshot-isolation clause and the race-freedom of third-party code are not decided by this check: a violation of those clauses would not be reported.",
   technique="contract-based deductive verification: frame (modifies) obligations and freshness postconditions over go/ssa VCs, ghost check-out set for pooled instances")

CLAIMS["C09"] = dict(
   text="Three statements, proved on the real code of every integrity checker (uniqueIndex, setIndex, fkIndex, fkConstraint, linkCollectionImpl .CheckIntegrity and the store-level fan-out BaseStore.CheckIntegrity): (1) check-only mode is read-only - with fix == false the bucket content model (key sets, values, nested buckets of every bucket) is unchanged on every path; every bbolt write (Put, Delete, DeleteBucket, CreateBucket*, Cursor.Delete) names the model in its trusted modifies clause, so a write reachable in check mode fails the postcondition or a loop invariant; the store's own readers (GetEntitiesBucket, GetEntityBucket, IsEntityPresent, IterateIds, IterateValidIds), TypedBucket.GetPath, fkIndex.getIndexBucketReadOnly, uniqueIndex.Read, linkCollectionImpl.IterateLinks and LinkedSetSymbol.IsLinked are proved read-only rather than assumed; (2) the fixed flag is honest - every errorSink call is proved to pass fixed == true only when the run is in fix mode and a database write has succeeded on the same path since the previous report (ghost copy of the flag and a volatile 'dirty' ghost raised by every write primitive; precondition on the callback parameter; one report whose repair is deferred to after the scan is waived with that reason); (3) the store-level fan-out runs every link collection's and every constraint's check (ghost set of completed checkers, map-iteration ghost) unless one of them returns an error. Three genuine check-mode writes were found this way and repaired (fix commits in known_findings.txt). NOT claimed: that every inconsistency is reported, that a consistent database yields no report, and single-pass convergence of fix mode - these quantify over what the loops do across all iterations while deleting under a live cursor; no contract within reach decides them and no bounded stand-in is registered.",
   design="5/C09",
   note=TRUST + ". Assumed: the bbolt bucket model; that the error sink, symbol evaluation (EntitySymbol.Eval, runtime set symbols) and filter evaluation inside newFilteredCursor only read the database; uniqueIndex: the index bucket exists (it is created by Initialize; when it is missing, getIndexBucket creates it even in check mode - outside the property's corruption classes, recorded in DESIGN.md). Panic-freedom of the checkers and the cursor-protocol preconditions inside them are not part of this claim (waived, listed per run).",
   technique="contract-based deductive verification: frame-style postcondition over a ghost bucket model, loop invariants, callback precondition via a ghost flag, SMT")

CLAIMS["C08"] = dict(
   text="Per-operation registration and delivery protocol, proved on the real code over a ghost model of bbolt's commit handlers (ocCnt/ocFn/ocRecv: how many callbacks a transaction holds, which function, which receiver; private ghosts that only Tx.OnCommit's trusted contract changes, so every function that does not name them is proved - or for trusted callees assumed - to register nothing). fireEvents: the pre-commit constraints run first; if none objects exactly one post-commit delivery of this very state (processPostCommit bound to it) is registered on the context's transaction, if one objects nothing is. fireParentEvent: a store without parent registers nothing; a child store registers exactly one delivery, of a fresh parent state that took the child flow's context, kind and id. Create / Update: on success exactly one delivery of the store's own change (kind created / updated, context the caller's, for update the initial state read before the write) is the last registration, preceded by exactly one for the parent store iff there is one, other transactions untouched. DeleteById: every change flow (one per child store holding the entity, then the store's own) is fired exactly once, in order. processPostCommit (callable only with the `committed` permission, see C07): every constraint of the store's snapshot is told once, in order, with this state. The three listener adapters: the listener is invoked once per entry of changeTypes matching the state's kind (spawned or not), with the final state for create/update and the initial state for delete (recursive count spec, loop invariants; go statements modelled as a call at the spawn point). mutateContext.setTx registers the commit handler once per bound transaction; DbImpl.Update's closure registers the tx-complete callback last when listeners exist. 'No events for undone work' is C07's error-flow + bbolt's rollback.",
   design="5/C08",
   note=TRUST + ". Assumed: bbolt runs each registered commit handler once, in order, after a successful commit and never after a rollback; a change state's context, kind, id, initial and final state and a store's parent are not rewritten once filled (declared immutable; the three fill sites init / initFromChild / loadFinalState are waived as two-step construction); listeners and constraints do not themselves register commit handlers unless their contract says so. Not proved: that handleCommit runs each commit action once (dynamic calls through a slice of functions have no contract); DbImpl.Batch (registers no tx-complete listener at all); ordering/timing of spawned deliveries.",
   technique="contract-based deductive verification: ghost registration log with private-ghost frames, postconditions on the real CRUD functions, recursive count spec for adapters, SMT")

CLAIMS["C01"] = dict(
   text="The compositional (per-node) half of filter evaluation, proved on the real Eval bodies of 42 node methods of package ast: each typed node evaluates to the documented function of what its operands evaluate to on the row the symbol table stands on (operands are represented by interface-level spec functions nodeSem, sNull/sVal, iNull/iVal, fNull/fVal, dNull/dInst). Not / and / or; boolean = and !=; int64, float64, datetime and string comparisons with the null rule (a null operand makes every comparison false except != - true exactly when one side is null - and not-contains) and the six comparison operators via one spec cmpOp; contains / not contains; between as lower-inclusive upper-exclusive with null making it false (all three types); in [array] as 'left not null and equal to some non-null element' (loop invariants, four types); int-to-float widening and its string pass-through; constants; symbol nodes return exactly what the symbol table answers (null boolean is false; numeric symbols render decimal strings); x = null / x != null; the string function node maps null to null; count = number of elements of the opened cursor, isEmpty = none; the query node evaluates its predicate. The typed dispatch (BinaryExprNode.handle*Ops) is proved to build the comparison node of the operand type with the same operator and the same operands (int vs float mixes widen the int side; icontains becomes contains on case-mapped operands). The bolt row cursor (rowCursorImpl.EvalString/Int64/Float64/Bool/Datetime/IsNil) is proved to return the FieldTo* decoding (C13) of what the store symbol evaluates to on the current row, null for an unknown symbol. The scanners' use of the filter (count and window relative to nodeSem) is C02.",
   design="5/C01",
   note=TRUST + ". NOT covered, so a violation there is not reported: anyOf / allOf (their predicate is evaluated while a set cursor moves under it; the interface-level model 'EvalBool is a function of node and row' does not capture the cursor position, so no claim is made rather than an unsound one), the index-seek shortcut's equivalence with the scan, sub-query cursors, dotted (linked) symbol resolution, set-function hoisting (MoveUpTree), and that the interface-level spec functions of a composite node agree with its own postcondition (the structural induction over the tree is not mechanised). Assumed: symbol table answers are deterministic per row; strings.Contains/ToUpper, strconv formatting as uninterpreted functions; floats as reals.",
   technique="contract-based deductive verification: postconditions stating each node's denotation over interface-level spec functions of its operands, loop invariants, SMT")

NA = {
 "C12": "not applicable to contract-based verification of the repository's Go code: how 'a and b or c', parentheses, keyword case and whitespace group is decided by ANTLR's ATN interpreter (AdaptivePredict) running the serialized grammar embedded in zitiql_parser.go; the generated Go functions are a table-driven shell around it, so no precondition/postcondition on a repository function can state 'the tree for this text is that tree', and the ANTLR tool needed to regenerate or analyse the grammar is not available here. (The listener half - each connective node evaluates as its connective - is contract-shaped and is part of the C10 sweep's dispatch contracts.) Observed while reading: 'a and b or c' groups as 'a and (b or c)'; recorded in DESIGN.md section 7 for the maintainers.",
 "C17": "not applicable: equality of the whole database across close/rename/reopen, what concurrent transactions observe during the swap, and restore listeners firing after the swap are file-system and schedule properties of bbolt and the OS (os.Rename, file locks, goroutines); contracts over single calls of repository functions cannot express them, and the only contract-shaped fragment (DbImpl.GetTimelineId's flag logic) does not decide the property.",
}

PENDING = "the contracts that carry this property are not built yet in this round (no claim is made)"

def main():
    props = [json.loads(l) for l in open('/verif/properties.jsonl')]
    try:
        commits = subprocess.check_output(['git','-C','/repo','log','--format=%H %s']).decode().splitlines()
    except Exception:
        commits = []
    hook_commits = [c.split()[0] for c in commits if c.split(' ',1)[1].startswith('verif:')]
    checks = []
    na = []
    for p in props:
        pid = p['id']
        if pid in CLAIMS:
            c = CLAIMS[pid]
            checks.append({
              "property_id": pid,
              "quick_cmd": f"/verif/bin/govc check {pid} --tier quick",
              "thorough_cmd": f"/verif/bin/govc check {pid} --tier thorough",
              "evidence_file": f"/verif/evidence/{pid}.json",
              "replay_cmd_template": "/verif/bin/govc replay {path}",
              "engine": "govc",
              "level_claimed": {"category": "proof", "text": c['text'], "design_ref": c['design']},
              "level_note": c['note'],
              "technique": c['technique'],
            })
        else:
            na.append({"property_id": pid, "reason": NA.get(pid, PENDING)})
    m = {
      "version": 1,
      "setup_cmd": "cd /verif/engine && GOFLAGS=-mod=vendor GOPROXY=off GOSUMDB=off GOTOOLCHAIN=local go build -o /verif/bin/govc ./cmd/govc",
      "hooks": {
        "guard": "verif",
        "enable": "govc loads /repo with -tags=verif; the tag adds the comment-only contract files */zz_verif_contracts*.go and boltz/zz_verif_lemmas.go (lemma functions that compose real setters and getters; never called, not compiled without the tag)",
        "baseline_off_cmd": "cd /repo && GOFLAGS=-mod=mod GOPROXY=off GOSUMDB=off go test -vet=off -count=1 -timeout 25m ./...",
        "source_commits": hook_commits,
        "add_only": True
      },
      "engines": [{"name": "govc", "path": "/verif/engine", "serves_properties": sorted(CLAIMS),
                   "kind_free_text": "verification-condition generator over go/ssa for the real code of /repo; contracts are structured comments in /repo/*/zz_verif_contracts.go (tag verif) and /verif/spec/trusted/*.contract for dependencies; obligations discharged by z3 4.8.12 / z3 5.1.0 / cvc5 1.0 raced per obligation"}],
      "checks": checks,
      "not_applicable": na,
      "notes": "Every check rebuilds its obligations from /repo's current working tree. VIOLATION lines name the failed obligation; known_findings.txt lists recorded findings and fixed defects."
    }
    json.dump(m, open('/verif/MANIFEST.json','w'), indent=1)
    print("claims:", sorted(CLAIMS), "na:", len(na))

main()
